package harness

import (
	"bytes"
	"encoding/base64"
	"math/rand"
	"strings"
)

// GenTLS: conversations across a real STARTTLS upgrade (crypto/tls on both
// sides) and under implicit TLS: plaintext pre-histories x plaintext injected
// behind the STARTTLS command x what the client tries inside TLS.
func GenTLS(rng *rand.Rand, thorough bool, emit func(*Sx)) {
	type hist struct {
		name  string
		lines []string
		codes []int
	}
	hists := []hist{
		{"greeted", []string{"EHLO p.example"}, []int{250}},
		{"mail", []string{"EHLO p.example", "MAIL FROM:<plain@x>"}, []int{250, 250}},
		{"rcpt", []string{"EHLO p.example", "MAIL FROM:<plain@x>", "RCPT TO:<plainr@x>"}, []int{250, 250, 250}},
		{"bdat", []string{"EHLO p.example", "MAIL FROM:<plain@x>", "RCPT TO:<plainr@x>", "BDAT 3\r\nabc"}, []int{250, 250, 250, 250}},
		{"authed", []string{"EHLO p.example", "AUTH PLAIN AGEAYg=="}, []int{250, 235}},
		// a complete DATA transaction in the clear: whatever was set up for it must not be reused inside TLS
		{"data-done", []string{"EHLO p.example", "MAIL FROM:<plain@x>", "RCPT TO:<plainr@x>", "DATA\r\nplaintext message\r\n.\r\n"}, []int{250, 250, 250, 354}},
		{"none", nil, nil},
	}
	type inj struct {
		name   string
		same   string // in the same raw read as the STARTTLS line: buffered, must be dropped
		later  string // in a later raw read: the handshake reads it and fails
	}
	injs := []inj{
		{"clean", "", ""},
		{"buffered", "RCPT TO:<inj@evil>\r\nMAIL FROM:<inj@evil>\r\n", ""},
		{"later", "", "MAIL FROM:<inj@evil>\r\n"},
		// an unterminated fragment just below the line limit, buffered behind STARTTLS: nothing of it - not
		// even its length - may count inside TLS
		{"buffered-long", "RCPT TO:<inj@evil>\r\n" + strings.Repeat("x", 95), ""},
	}
	n := 0
	for _, insecure := range []bool{true, false} {
		for _, h := range hists {
			if h.name == "authed" && !insecure {
				continue
			}
			for _, in := range injs {
				for seg := 0; seg < 3; seg++ {
					n++
					cfg := DefaultCfg()
					cfg.TLSConfig = true
					if in.name == "buffered-long" {
						cfg.MaxLine = 100
					}
					cfg.Insecure = insecure
					cfg.HasAuth, cfg.Auth = true, []string{"PLAIN"}
					f := newF(cfg)
					for i, l := range h.lines {
						if l == "BDAT 3\r\nabc" {
							f.raw(l)
							f.expect(h.codes[i])
						} else if strings.HasPrefix(l, "DATA\r\n") {
							f.raw(l)
							f.expect(h.codes[i], 250)
						} else {
							f.cmd(l, h.codes[i])
						}
					}
					f.out = append(f.out, "STARTTLS\r\n"...)
					f.expect(220)
					f.out = append(f.out, in.same...)
					var plain []Raw
					if seg == 0 {
						plain = []Raw{{Kind: RawData, Data: append([]byte(nil), f.out...)}}
					} else {
						// everything before the STARTTLS line segmented, the line and what shares its raw read as one
						k := len(f.out) - len(in.same) - len("STARTTLS\r\n")
						plain = segStream(rng, f.out[:k], nil, seg, Raw{Kind: RawData, Data: append([]byte(nil), f.out[k:]...)})
					}
					f.add(L(A("must-not-mail"), XS("inj@evil")))
					if in.later != "" {
						// handshake failure: 550, the plaintext session goes on
						plain = append(plain, Raw{Kind: RawData, Data: []byte(in.later)})
						f.expect(550)
						// the plaintext session goes on, and it is still a PLAINTEXT session: STARTTLS is
						// still offered, AUTH is neither advertised nor accepted unless insecure auth is allowed
						g := &fconv{cfg: cfg}
						g.cmd("NOOP", 250)
						g.cmd("EHLO f.example", 250)
						if insecure {
							g.cmd("AUTH PLAIN AGEAYg==", 235)
						} else {
							g.cmd("AUTH PLAIN AGEAYg==", 523)
						}
						if h.name == "authed" {
							g.codes[len(g.codes)-1] = 503
						}
						g.cmd("QUIT", 221)
						f.expect(g.codes...)
						if h.name == "none" {
							caps := []string{"PIPELINING", "8BITMIME", "ENHANCEDSTATUSCODES", "CHUNKING", "STARTTLS"}
							if insecure {
								caps = append(caps, "AUTH PLAIN")
							}
							caps = append(caps, "SIZE")
							cl := L()
							for _, c := range caps {
								cl.Add(XS(c))
							}
							f.add(L(A("expect-ehlo"), cl))
						}
						plain = append(plain, Raw{Kind: RawData, Data: g.out}, rawEOF)
						emit(RunConv(ConvCase{Cfg: cfg, Script: f.script, Phases: [][]Raw{plain}, Extra: f.caseOf("C10", nil).Extra}))
						continue
					}
					// inside TLS
					g := &fconv{cfg: cfg}
					g.cmd("RCPT TO:<r2@x>", 502)
					g.cmd("DATA", 502)
					g.cmd("MAIL FROM:<early@x>", 502)
					g.cmd("EHLO t.example", 250)
					g.cmd("RCPT TO:<r2@x>", 502)
					g.cmd("BDAT 0 LAST", 502)
					g.cmd("MAIL FROM:<intls@x>", 250)
					g.cmd("RCPT TO:<rtls@x>", 250)
					g.cmd("DATA", 354)
					g.raw("..inside tls\r\nsecond line\r\n.\r\n")
					g.expect(250)
					g.cmd("AUTH PLAIN AGEAYg==", 235)
					g.cmd("AUTH PLAIN AGEAYg==", 503)
					g.cmd("STARTTLS", 502)
					g.cmd("QUIT", 221)
					f.expect(g.codes...)
					f.add(L(A("must-mail"), XS("intls@x")))
					f.add(L(A("for"), A("C01"), L(A("expect-last-data"), XS(".inside tls\r\nsecond line\r\n"), A("eof"))))
					f.add(L(A("must-not-mail"), XS("early@x")))
					f.add(L(A("must-not-mail"), XS("r2@x")))
					tlsRaws := segStream(rng, g.out, nil, []int{1, 3, 0}[seg], rawEOF)
					emit(RunConv(ConvCase{Cfg: cfg, Script: f.script, Phases: [][]Raw{plain, tlsRaws}, Extra: f.caseOf("C10", nil).Extra}))
				}
			}
		}
	}
	// STARTTLS not configured / AUTH on plaintext without AllowInsecureAuth
	for _, tlscfg := range []bool{false, true} {
		cfg := DefaultCfg()
		cfg.TLSConfig = tlscfg
		cfg.HasAuth, cfg.Auth = true, []string{"PLAIN"}
		f := newF(cfg)
		f.hello()
		f.cmd("AUTH PLAIN AGEAYg==", 523)
		f.cmd("AUTH PLAIN", 523)
		if !tlscfg {
			f.cmd("STARTTLS", 502)
		}
		f.cmd("QUIT", 221)
		emit(RunConv(f.caseOf("C09", segStream(rng, f.out, nil, 1, rawEOF))))
	}
	// implicit TLS
	for seg := 0; seg < 3; seg++ {
		for _, auth := range []bool{true, false} {
			cfg := DefaultCfg()
			cfg.ImplicitTLS = true
			cfg.TLSConfig = seg == 1
			cfg.RequireTLS = true
			if auth {
				cfg.HasAuth, cfg.Auth = true, []string{"PLAIN", "LOGIN"}
			}
			f := newF(cfg)
			f.hello()
			f.cmd("STARTTLS", 502)
			if auth {
				f.cmd("AUTH PLAIN AGEAYg==", 235)
				f.cmd("AUTH PLAIN AGEAYg==", 503)
			} else {
				f.cmd("AUTH PLAIN AGEAYg==", 504)
			}
			f.cmd("MAIL FROM:<s@ok> REQUIRETLS", 250)
			f.cmd("RCPT TO:<r@ok>", 250)
			f.cmd("DATA", 354)
			f.raw("in tls\r\n.\r\n")
			f.expect(250)
			f.cmd("QUIT", 221)
			f.add(L(A("must-mail"), XS("s@ok")))
			emit(RunConv(f.caseOf("C10", segStream(rng, f.out, nil, []int{1, 3, 0}[seg], rawEOF))))
		}
	}
}

// GenC12: the complete configuration space of the property: 5 extension flags
// x size limit {0,N} x recipient limit {0,N} x TLS {none, available, active} x
// AllowInsecureAuth x backend {auth-capable, not} x {SMTP, LMTP} = 3072
// configurations; for each: the EHLO/LHLO reply, the HELO reply, and a probe of
// every extension's command or parameter.
var c12n int

func GenC12(rng *rand.Rand, thorough bool, emit func(*Sx)) {
	idx := 0
	for bits := 0; bits < 1<<5; bits++ {
		for _, maxBytes := range []int64{0, 1000} {
			for _, maxRcpt := range []int{0, 2} {
				for tlsState := 0; tlsState < 3; tlsState++ {
					for _, insecure := range []bool{false, true} {
						// authMode 2: the session implements AuthSession but offers NO mechanism (an empty, non-nil
						// list - a backend that filters its mechanisms by connection state): no AUTH line
						for authMode := 0; authMode < 3; authMode++ {
							auth := authMode == 1
							for _, lmtp := range []bool{false, true} {
								idx++
								if !thorough && idx%4 != 0 && !(bits == 0 || bits == 31) {
									continue
								}
								cfg := DefaultCfg()
								cfg.UTF8 = bits&1 != 0
								cfg.RequireTLS = bits&2 != 0
								cfg.BinaryMIME = bits&4 != 0
								cfg.DSN = bits&8 != 0
								cfg.RRVS = bits&16 != 0
								cfg.MaxBytes, cfg.MaxRcpt = maxBytes, maxRcpt
								cfg.TLSConfig = tlsState >= 1
								cfg.ImplicitTLS = tlsState == 2
								cfg.Insecure = insecure
								cfg.LMTP = lmtp
								if auth {
									cfg.HasAuth, cfg.Auth = true, []string{"PLAIN", "LOGIN"}
								}
								if authMode == 2 {
									if !thorough && (bits+tlsState)%4 != 0 {
										continue
									}
									cfg.HasAuth, cfg.Auth = true, []string{}
								}
								tls := cfg.ImplicitTLS
								f := newF(cfg)
								if authMode == 2 {
									// (such a backend refuses every mechanism, and says so)
									no := AuthPlan{Start: BSmtp(504, [3]int{5, 5, 4}, "Unsupported authentication mechanism")}
									f.script.Auth = []AuthPlan{no, no}
								}
								f.hello()
								// every third configuration: a greeting that is REFUSED follows the accepted one - it
								// changes nothing about what was advertised and is honoured
								c12n++
								switch {
								case c12n%3 != 0:
								case lmtp && c12n%2 == 0:
									f.cmd("HELO client.example", 500)
								case lmtp:
									f.cmd("LHLO", 501)
								case c12n%2 == 0:
									f.cmd("HELO", 501)
								default:
									f.cmd("EHLO", 501)
								}
								caps := []string{"PIPELINING", "8BITMIME", "ENHANCEDSTATUSCODES", "CHUNKING"}
								if cfg.TLSConfig && !tls {
									caps = append(caps, "STARTTLS")
								}
								if (tls || insecure) && auth {
									caps = append(caps, "AUTH PLAIN LOGIN")
								}
								if cfg.UTF8 {
									caps = append(caps, "SMTPUTF8")
								}
								if tls && cfg.RequireTLS {
									caps = append(caps, "REQUIRETLS")
								}
								if cfg.BinaryMIME {
									caps = append(caps, "BINARYMIME")
								}
								if cfg.DSN {
									caps = append(caps, "DSN")
								}
								if maxBytes > 0 {
									caps = append(caps, "SIZE 1000")
								} else {
									caps = append(caps, "SIZE")
								}
								if maxRcpt > 0 {
									caps = append(caps, "LIMITS RCPTMAX=2")
								}
								if cfg.RRVS {
									caps = append(caps, "RRVS")
								}
								cl := L()
								for _, c := range caps {
									cl.Add(XS(c))
								}
								f.add(L(A("expect-ehlo"), cl))
								on := func(b bool, yes, no int) int {
									if b {
										return yes
									}
									return no
								}
								probe := func(line string, code int) {
									f.cmd(line, code)
									if code == 250 {
										f.cmd("RSET", 250)
									}
								}
								probe("MAIL FROM:<p@x> SMTPUTF8", on(cfg.UTF8, 250, 504))
								probe("MAIL FROM:<p@x> REQUIRETLS", on(cfg.RequireTLS, 250, 504))
								probe("MAIL FROM:<p@x> BODY=BINARYMIME", on(cfg.BinaryMIME, 250, 504))
								probe("MAIL FROM:<p@x> BODY=8BITMIME", 250)
								probe("MAIL FROM:<p@x> RET=HDRS", on(cfg.DSN, 250, 504))
								probe("MAIL FROM:<p@x> ENVID=e1", on(cfg.DSN, 250, 504))
								if !cfg.DSN {
									probe("MAIL FROM:<p@x> RET=BOGUS", 504)
									probe("MAIL FROM:<p@x> ENVID=+zz", 504)
									// "KEY=" is not an esmtp-param (the value may not be empty): a syntax error, whatever KEY is
									probe("MAIL FROM:<p@x> ENVID=", 501)
								}
								if !cfg.BinaryMIME {
									probe("MAIL FROM:<p@x> body=binarymime", 504)
								}
								probe("MAIL FROM:<p@x> SIZE=1000", 250)
								probe("MAIL FROM:<p@x> SIZE=1001", on(maxBytes > 0, 552, 250))
								// every parameter that is enabled, all in one command
								{
									all := "MAIL FROM:<p@x> SIZE=10 BODY=8BITMIME AUTH=<>"
									if cfg.UTF8 {
										all += " SMTPUTF8"
									}
									if cfg.RequireTLS {
										all += " REQUIRETLS"
									}
									if cfg.DSN {
										all += " RET=FULL ENVID=e2"
									}
									probe(all, 250)
								}
								f.cmd("MAIL FROM:<p@x>", 250)
								acc := 0
								rprobe := func(line string, enabled bool) {
									switch {
									case maxRcpt > 0 && acc >= maxRcpt:
										f.cmd(line, 452) // the limit is checked before the parameters
									case enabled:
										f.cmd(line, 250)
										acc++
									default:
										f.cmd(line, 504)
									}
								}
								rprobe("RCPT TO:<r1@x> NOTIFY=SUCCESS", cfg.DSN)
								rprobe("RCPT TO:<r2@x> ORCPT=rfc822;o@x", cfg.DSN)
								rprobe("RCPT TO:<r3@x> RRVS=2014-04-03T23:01:00Z", cfg.RRVS)
								// a disabled extension is refused with 504 whatever the value looks like
								if !cfg.RRVS && !(maxRcpt > 0 && acc >= maxRcpt) {
									f.cmd("RCPT TO:<z1@x> RRVS=0001-01-01T00:00:00Z", 504)
									f.cmd("RCPT TO:<z2@x> RRVS=garbage", 504)
								}
								if !cfg.DSN && !(maxRcpt > 0 && acc >= maxRcpt) {
									f.cmd("RCPT TO:<z3@x> NOTIFY=BOGUS", 504)
									f.cmd("RCPT TO:<z4@x> ORCPT=bogus", 504)
									f.cmd("RCPT TO:<z5@x> ORCPT=", 501)
								}
								for i := 0; i < 3; i++ {
									rprobe("RCPT TO:<more@x>", true)
								}
								f.cmd("RSET", 250)
								switch {
								case !(tls || insecure):
									f.cmd("AUTH PLAIN AGEAYg==", 523)
								case !auth:
									f.cmd("AUTH PLAIN AGEAYg==", 504)
								default:
									f.cmd("AUTH PLAIN AGEAYg==", 235)
								}
								// HELO lists nothing
								if !lmtp {
									f.cmd("HELO again.example", 250)
									f.add(L(A("expect-helo-plain")))
								}
								if tls || !cfg.TLSConfig {
									f.cmd("STARTTLS", 502)
									f.cmd("QUIT", 221)
								} else {
									// available: the command is accepted (220); plaintext follows instead of a
									// handshake, so 550 - and the connection is still a plaintext one
									f.cmd("STARTTLS", 220, 550)
									f.cut()
									f.raw("NOOP\r\n") // read by the failed handshake
									f.cut()
									switch {
									case !insecure:
										f.cmd("AUTH PLAIN AGEAYg==", 523)
									case !auth:
										f.cmd("AUTH PLAIN AGEAYg==", 504)
									default:
										f.cmd("AUTH PLAIN AGEAYg==", 503)
									}
									f.cmd("QUIT", 221)
								}
								emit(RunConv(f.caseOf("C12", segStream(rng, f.out, f.cuts, idx%2, rawEOF))))
							}
						}
					}
				}
			}
		}
	}
}

// genC09AfterErrors: a malformed / cancelled / failed exchange as the 4th "irregular" event of a
// connection: it is not a protocol error, the connection stays open and in command mode.
func genC09AfterErrors(rng *rand.Rand, emit func(*Sx)) {
	for _, kind := range []string{"bad-initial", "bad-later", "star", "mech-error", "smtp-error", "unknown-mech"} {
		for _, implicit := range []bool{false, true} {
			cfg := DefaultCfg()
			cfg.HasAuth, cfg.Auth = true, []string{"PLAIN"}
			if implicit {
				cfg.ImplicitTLS = true
			} else {
				cfg.Insecure = true
			}
			f := newF(cfg)
			f.hello()
			f.cmd("XXXX", 500)
			f.cmd("X", 501)
			f.cmd("", 500)
			switch kind {
			case "bad-initial":
				f.cmd("AUTH PLAIN !!!", 454)
			case "bad-later":
				f.script.Auth = []AuthPlan{{Start: BNil, Steps: []SaslStep{{Challenge: []byte("c")}, {Done: true}}}}
				f.cmd("AUTH PLAIN", 334)
				f.cmd("%%%", 454)
			case "star":
				f.script.Auth = []AuthPlan{{Start: BNil, Steps: []SaslStep{{Challenge: []byte("c")}, {Done: true}}}}
				f.cmd("AUTH PLAIN", 334)
				f.cmd("*", 501)
			case "mech-error":
				f.script.Auth = []AuthPlan{{Start: BNil, Steps: []SaslStep{{Err: BPlain("bad credentials")}}}}
				f.cmd("AUTH PLAIN AGEAYg==", 454)
			case "smtp-error":
				f.script.Auth = []AuthPlan{{Start: BNil, Steps: []SaslStep{{Err: BSmtp(535, [3]int{5, 7, 8}, "Authentication failed")}}}}
				f.cmd("AUTH PLAIN AGEAYg==", 535)
			case "unknown-mech":
				f.script.Auth = []AuthPlan{{Start: BSmtp(504, [3]int{5, 7, 4}, "Unsupported authentication mechanism")}}
				f.cmd("AUTH NOPE", 504)
			}
			f.cmd("NOOP", 250)
			f.cmd("MAIL FROM:<s@ok>", 250)
			f.cmd("QUIT", 221)
			f.add(L(A("must-mail"), XS("s@ok")))
			emit(RunConv(f.caseOf("C09", segStream(rng, f.out, nil, 1, rawEOF))))
		}
	}
}

// GenC09: AUTH exchanges against the real server: 1..3-step scripted SASL servers x what the client
// sends at each step (initial response, '=', nothing, bad base64, '*', arbitrary octets) x where the
// connection is allowed to authenticate (insecure auth allowed on plaintext, implicit TLS, or not).
func GenC09(rng *rand.Rand, thorough bool, emit func(*Sx)) {
	b64 := func(b []byte) string { return base64.StdEncoding.EncodeToString(b) }
	type cstep struct {
		line string // what the client sends for this step ("" for the initial step = no initial response)
		kind string // ok bad star
	}
	initial := []cstep{{"", "ok"}, {"=", "ok"}, {b64([]byte("\x00user\x00pass")), "ok"}, {"!!!notbase64", "bad"}, {b64([]byte{0, 255, 13, 10}), "ok"}}
	later := []cstep{{b64([]byte("resp")), "ok"}, {"=", "ok"}, {"", "ok"}, {"*", "star"}, {"%%%", "bad"}, {b64([]byte{0x80, 0, 0xff}), "ok"},
		// answers that spell a command: well-formed base64 for three octets, nothing else
		{"QUIT", "ok"}, {"quit", "ok"}, {"RSET", "ok"}}
	chals := [][]byte{nil, []byte("challenge"), {0, 255, 10, 13}, []byte("a"), bytes.Repeat([]byte("long challenge "), 30), bytes.Repeat([]byte{0xfe, 0x01}, 700), {}}
	// (seven challenges, nine later answers: coprime, so that every challenge meets every answer)
	genC09AfterErrors(rng, emit)
	genC09LongResponse(rng, emit)
	n := 0
	for mode := 0; mode < 3; mode++ { // 0 plaintext+insecure, 1 implicit TLS, 2 plaintext without insecure
		for nsteps := 0; nsteps <= 3; nsteps++ {
			for _, fin := range []string{"done", "err", "smtperr", "exhaust", "donedata"} {
				for _, ini := range initial {
					for li, lat := range later {
						n++
						if !thorough && (n+li)%5 != 0 {
							continue
						}
						cfg := DefaultCfg()
						cfg.HasAuth, cfg.Auth = true, []string{"PLAIN", "XSTEPS"}
						switch mode {
						case 0:
							cfg.Insecure = true
						case 1:
							cfg.ImplicitTLS = true
						}
						// the scripted SASL server: nsteps challenges, then the final step
						var steps []SaslStep
						for i := 0; i < nsteps; i++ {
							steps = append(steps, SaslStep{Challenge: chals[(n+i)%len(chals)]})
						}
						switch fin {
						case "done":
							steps = append(steps, SaslStep{Done: true})
						case "donedata":
							// success together with additional data (SCRAM's server signature): the exchange is over
							steps = append(steps, SaslStep{Done: true, Challenge: []byte("v=server signature")})
						case "err":
							steps = append(steps, SaslStep{Err: BPlain("bad credentials")})
						case "smtperr":
							steps = append(steps, SaslStep{Err: BSmtp(535, [3]int{5, 7, 8}, "Authentication failed")})
						}
						f := newF(cfg)
						f.hello()
						// some exchanges come after three protocol errors: a failed, malformed or cancelled
						// exchange is not a protocol error and must leave the connection in command mode
						nbad := 0
						if n%3 == 0 {
							nbad = 3
							f.cmd("XXXX", 500)
							f.cmd("X", 501)
							f.cmd("", 500)
						}
						f.script.Auth = []AuthPlan{{Start: BNil, Steps: steps}}
						line := "AUTH XSTEPS"
						if ini.line != "" {
							line += " " + ini.line
						}
						authed := false
						if mode == 2 {
							f.cmd(line, 523)
						} else if ini.kind == "bad" {
							f.cmd(line, 454)
							f.script.Auth = nil // the backend is not consulted: the scripted exchange is not consumed
						} else {
							// run the exchange as the property describes it
							f.out = append(f.out, line...)
							f.out = append(f.out, '\r', '\n')
							i := 0
							for {
								var st SaslStep
								if i < len(steps) {
									st = steps[i]
								} else {
									st = SaslStep{Done: true}
								}
								if st.Err.Kind == "smtp" {
									f.expect(st.Err.Code)
									break
								}
								if st.Err.Kind == "plain" {
									f.expect(454)
									break
								}
								if st.Done {
									f.expect(235)
									authed = true
									break
								}
								f.expect(334)
								f.out = append(f.out, lat.line...)
								f.out = append(f.out, '\r', '\n')
								if lat.kind == "star" {
									f.expect(501)
									break
								}
								if lat.kind == "bad" {
									f.expect(454)
									break
								}
								i++
							}
						}
						// the connection is in command mode again, authenticated iff the exchange succeeded
						_ = nbad
						f.cmd("NOOP", 250)
						if authed {
							f.cmd("AUTH PLAIN", 503)
						} else if mode == 2 {
							f.cmd("AUTH PLAIN", 523)
						} else {
							f.cmd("AUTH PLAIN AGEAYg==", 235) // the default plan of the next exchange succeeds
						}
						f.cmd("QUIT", 221)
						emit(RunConv(f.caseOf("C09", segStream(rng, f.out, nil, n%4, rawEOF))))
					}
				}
			}
		}
	}
}


// genC09LongResponse: a SASL response (or initial response) line longer than the server's line limit that
// arrives in two reads, the first of which is short well-formed base64: the mechanism must never be
// given octets the client did not send as a complete line.
func genC09LongResponse(rng *rand.Rand, emit func(*Sx)) {
	for _, L_ := range []int{60, 200, 2000} {
		for _, initial := range []bool{false, true} {
			for _, lmtp := range []bool{false, true} {
				cfg := DefaultCfg()
				cfg.MaxLine = L_
				cfg.LMTP = lmtp
				cfg.Insecure, cfg.HasAuth, cfg.Auth = true, true, []string{"PLAIN"}
				f := newF(cfg)
				f.hello()
				f.script.Auth = []AuthPlan{{Start: BNil, Steps: []SaslStep{{Challenge: []byte("c")}, {Done: true}}}}
				n := L_ / 2
				if L_ == 2000 {
					n = 4000 // beyond RFC 4954's 12288 octets as well
				}
				long := "dXNlcjpwYXNz" + strings.Repeat("QUJD", n) + "\r\n"
				var k int
				if initial {
					f.raw("AUTH PLAIN ")
					k = len(f.out) + 12
					f.raw(long)
					f.expect(500)
					f.add(L(A("max-events"), A("auth"), Num(0)))
				} else {
					f.cmd("AUTH PLAIN", 334)
					f.cut()
					k = len(f.out) + 12
					f.raw(long)
					f.expect(500)
				}
				f.add(L(A("max-events"), A("authnext"), Num(map[bool]int64{true: 0, false: 1}[initial])))
				f.raw("MAIL FROM:<late@x>\r\n")
				f.add(L(A("must-not-mail"), XS("late@x")))
				f.add(L(A("expect-last"), Num(500)))
				f.cuts = append(f.cuts, k, k+len(long)-12)
				emit(RunConv(f.caseOf("C09", segStream(rng, f.out, f.cuts, 0, rawEOF))))
			}
		}
	}
}
