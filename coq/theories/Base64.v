(* encoding/base64 StdEncoding as go-smtp uses it: EncodeToString and
   DecodeString (padding required, CR and LF ignored anywhere, non-zero
   trailing bits tolerated). Octets are 8 booleans, so the 3x8 <-> 4x6
   regrouping is structural. *)
From Smtp Require Import Bytes.
Local Open Scope char_scope.

(* six bits, most significant first *)
Definition sextet := (bool * bool * bool * bool * bool * bool)%type.

Definition sextet_N (s : sextet) : N :=
  let '(b5, b4, b3, b2, b1, b0) := s in
  (N.b2n b5 * 32 + N.b2n b4 * 16 + N.b2n b3 * 8 + N.b2n b2 * 4 + N.b2n b1 * 2 + N.b2n b0)%N.

(* the alphabet A-Z a-z 0-9 + / *)
Definition b64_char (s : sextet) : ascii :=
  let n := sextet_N s in
  if (n <? 26)%N then n_byte (65 + n)
  else if (n <? 52)%N then n_byte (71 + n)
  else if (n <? 62)%N then n_byte (n - 4)
  else if (n =? 62)%N then "+" else "/".

Definition N_sextet (n : N) : sextet :=
  (N.testbit n 5, N.testbit n 4, N.testbit n 3, N.testbit n 2, N.testbit n 1, N.testbit n 0).

Definition b64_val (c : ascii) : option sextet :=
  if is_upper c then Some (N_sextet (byte_n c - 65))
  else if is_lower c then Some (N_sextet (byte_n c - 71))
  else if is_digit c then Some (N_sextet (byte_n c + 4))
  else if Ascii.eqb c "+" then Some (N_sextet 62)
  else if Ascii.eqb c "/" then Some (N_sextet 63)
  else None.

Definition enc3 (a b c : ascii) : bytes :=
  let '(Ascii a0 a1 a2 a3 a4 a5 a6 a7) := a in
  let '(Ascii b0 b1 b2 b3 b4 b5 b6 b7) := b in
  let '(Ascii c0 c1 c2 c3 c4 c5 c6 c7) := c in
  [b64_char (a7, a6, a5, a4, a3, a2); b64_char (a1, a0, b7, b6, b5, b4);
   b64_char (b3, b2, b1, b0, c7, c6); b64_char (c5, c4, c3, c2, c1, c0)].

Definition enc2 (a b : ascii) : bytes :=
  let '(Ascii a0 a1 a2 a3 a4 a5 a6 a7) := a in
  let '(Ascii b0 b1 b2 b3 b4 b5 b6 b7) := b in
  [b64_char (a7, a6, a5, a4, a3, a2); b64_char (a1, a0, b7, b6, b5, b4);
   b64_char (b3, b2, b1, b0, false, false); "="].

Definition enc1 (a : ascii) : bytes :=
  let '(Ascii a0 a1 a2 a3 a4 a5 a6 a7) := a in
  [b64_char (a7, a6, a5, a4, a3, a2); b64_char (a1, a0, false, false, false, false); "="; "="].

(* base64.StdEncoding.EncodeToString *)
Fixpoint b64_encode (s : bytes) : bytes :=
  match s with
  | a :: b :: c :: t => enc3 a b c ++ b64_encode t
  | [a; b] => enc2 a b
  | [a] => enc1 a
  | [] => []
  end.

Definition dec_4 (s1 s2 s3 s4 : sextet) : bytes :=
  let '(p5, p4, p3, p2, p1, p0) := s1 in
  let '(q5, q4, q3, q2, q1, q0) := s2 in
  let '(r5, r4, r3, r2, r1, r0) := s3 in
  let '(t5, t4, t3, t2, t1, t0) := s4 in
  [Ascii q4 q5 p0 p1 p2 p3 p4 p5; Ascii r2 r3 r4 r5 q0 q1 q2 q3; Ascii t0 t1 t2 t3 t4 t5 r0 r1].

Definition zero6 : sextet := (false, false, false, false, false, false).

Definition is_nl (c : ascii) : bool := Ascii.eqb c CR || Ascii.eqb c LF.

Fixpoint skip_nl (s : bytes) : bytes :=
  match s with
  | c :: t => if is_nl c then skip_nl t else s
  | [] => []
  end.

(* decodeQuantum iterated: [q] holds the sextets of the current quantum
   (reversed) *)
Fixpoint b64_decode_go (s : bytes) (q : list sextet) : option bytes :=
  match s with
  | [] =>
      match q with
      | [] => Some []
      | _ => None                         (* truncated quantum: padding is required *)
      end
  | c :: t =>
      match b64_val c with
      | Some v =>
          match q with
          | [s3; s2; s1] => option_map (app (dec_4 s1 s2 s3 v)) (b64_decode_go t [])
          | _ => b64_decode_go t (v :: q)
          end
      | None =>
          if is_nl c then b64_decode_go t q
          else if Ascii.eqb c "=" then
            match q with
            | [s2; s1] =>
                (* "==" expected; newlines may separate; nothing but newlines after *)
                match skip_nl t with
                | c2 :: t2 =>
                    if Ascii.eqb c2 "=" then
                      match skip_nl t2 with
                      | [] => Some (firstn 1 (dec_4 s1 s2 zero6 zero6))
                      | _ => None
                      end
                    else None
                | [] => None
                end
            | [s3; s2; s1] =>
                match skip_nl t with
                | [] => Some (firstn 2 (dec_4 s1 s2 s3 zero6))
                | _ => None
                end
            | _ => None
            end
          else None
      end
  end.

(* base64.StdEncoding.DecodeString: None for any CorruptInputError *)
Definition b64_decode (s : bytes) : option bytes := b64_decode_go s [].

(* conn.go decodeSASLResponse *)
Definition decode_sasl_response (s : bytes) : option bytes :=
  if bytes_eqb s (bs "=") then Some [] else b64_decode s.
