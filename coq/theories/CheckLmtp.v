(* Oracle for property C13 over OBSERVED behaviour.  It does not use the
   server model (Conn.v) nor the collector model (Lmtp.v): only the direct
   specification LmtpSpec.v and the rendering of a reply (Reply.v).

   Inputs (all plain data, taken from a recorded LMTP transaction):
     lmtp_session  the backend's sessions implement LMTPSession
     rcpts         the ACCEPTED recipients of the transaction, in RCPT order
     calls         the SetStatus calls of the backend's plan, in order
     ret           the value handed to fillRemaining: the backend's return
                   value (DATA, and BDAT LAST whose copy succeeded) or the
                   copy error (BDAT LAST whose copy failed)
     panicked      the backend's plan ends in a panic
     replies       what the server wrote after the delivery: the reply groups
                   ([lmtp_oracle]) or the raw octets ([lmtp_oracle_wire])

   Verdict true = the observation is allowed by C13:
   * per-recipient backend, contract respected, no panic: exactly one reply
     per recipient, in RCPT order, the i-th being the rendering of
     "<rcpt_i> " + the status [expected_statuses] prescribes;
   * contract respected, panic: the same with errPanic (421 4.0.0) in place
     of the return value (all calls were made before the panic);
   * contract broken (SetStatus panics at a point that depends on the
     goroutine schedule, see LmtpProofs.ex_schedule_dependence): for some
     j <= |calls| the replies are those for the first j calls filled with
     errPanic, or - if no call happened to panic - those for all calls filled
     with [ret];
   * plain backend: everybody gets the single result; after a panic either
     one 421 per recipient (BDAT) or the single "421 4.0.0 Internal server
     error" of the connection's recover (DATA);
   * [lmtp_oracle] (not [lmtp_oracle_strict]) additionally accepts, when the
     backend panicked or broke the contract, any sequence of well-formed
     replies, one per recipient, in order, each starting with a three-digit
     code and naming its recipient (DESIGN sec. 7: after a panic only
     well-formedness is required). *)
From Smtp Require Import Bytes Reply LmtpSpec.
Local Open Scope char_scope.

Fixpoint list_bytes_eqb (a b : list bytes) : bool :=
  match a, b with
  | [], [] => true
  | x :: a', y :: b' => bytes_eqb x y && list_bytes_eqb a' b'
  | _, _ => false
  end.

(* the replies for a list of statuses *)
Definition render (sts : list (bytes * berr)) : list bytes :=
  map (fun '(a, e) => status_reply_bytes a e) sts.

(* ---------- reading replies off the wire ---------- *)

(* complete lines (with their CRLF) and the unterminated rest; [cur] is the
   current line, reversed *)
Fixpoint wire_lines (cur : bytes) (s : bytes) : list bytes * bytes :=
  match s with
  | [] => ([], rev cur)
  | c :: r =>
      match r with
      | d :: r' =>
          if beqb c CR && beqb d LF then
            let '(ls, rest) := wire_lines [] r' in (rev (LF :: CR :: cur) :: ls, rest)
          else wire_lines (c :: cur) r
      | [] => ([], rev (c :: cur))
      end
  end.

(* group lines into replies: "ddd-text" lines closed by a "ddd text" line *)
Fixpoint group_replies (cur : bytes) (ls : list bytes) : option (list bytes) :=
  match ls with
  | [] => match cur with [] => Some [] | _ => None end
  | l :: r =>
      match l with
      | c1 :: c2 :: c3 :: sep :: _ =>
          if is_digit c1 && is_digit c2 && is_digit c3 then
            if beqb sep "-" then group_replies (cur ++ l) r
            else if beqb sep " " then option_map (cons (cur ++ l)) (group_replies [] r)
            else None
          else None
      | _ => None
      end
  end.

(* the replies in a stretch of server output; None if it is not a sequence of
   complete well-formed replies *)
Definition wire_replies (w : bytes) : option (list bytes) :=
  let '(ls, rest) := wire_lines [] w in
  match rest with
  | [] => group_replies [] ls
  | _ => None
  end.

(* the last n elements (to drop replies to earlier commands that the
   recording merged into the same write) *)
Definition lastn {A} (n : nat) (l : list A) : list A := skipn (List.length l - n) l.

(* ---------- well-formed reply naming its recipient ---------- *)

Fixpoint span_ec (s : bytes) : bytes * bytes :=
  match s with
  | c :: r => if is_digit c || beqb c "." then let '(t, rest) := span_ec r in (c :: t, rest) else ([], s)
  | [] => ([], [])
  end.

(* "ddd[ -][d.d.d ]<rcpt> ..." and a single complete reply *)
Definition reply_names (a : bytes) (r : bytes) : bool :=
  match r with
  | c1 :: c2 :: c3 :: sep :: rest =>
      is_digit c1 && is_digit c2 && is_digit c3 && (beqb sep " " || beqb sep "-")
      && (let want := bs "<" ++ a ++ bs "> " in
          is_prefix want rest
          || match span_ec rest with
             | (_ :: _, sp :: rest') => beqb sp " " && is_prefix want rest'
             | _ => false
             end)
      && match wire_replies r with Some [_] => true | _ => false end
  | _ => false
  end.

Fixpoint replies_name (rcpts : list bytes) (replies : list bytes) : bool :=
  match rcpts, replies with
  | [], [] => true
  | a :: rc, r :: rs => reply_names a r && replies_name rc rs
  | _, _ => false
  end.

(* ---------- the oracle ---------- *)

(* the reply of the connection's recover handler *)
Definition reply_panic_single : bytes :=
  write_response 421 (4, 0, 0)%Z [bs "Internal server error"].

(* [same sts]: the observation shows exactly the replies for [sts];
   [single]: it shows exactly the one reply of the recover handler;
   [loose]: verdict of the well-formedness check *)
Definition oracle_core (same : list (bytes * berr) -> bool) (single loose : bool)
           (lmtp_session : bool) (rcpts : list bytes) (calls : list (bytes * berr)) (ret : berr)
           (panicked : bool) : bool :=
  if lmtp_session then
    let after_panic :=
      existsb (fun j => same (expected_statuses rcpts (firstn j calls) err_panic))
              (seq 0 (S (List.length calls))) in
    if contract_ok rcpts calls then
      if panicked then same (expected_statuses rcpts calls err_panic) || loose
      else same (expected_statuses rcpts calls ret)
    else
      (if panicked then false else same (expected_statuses rcpts calls ret)) || after_panic || loose
  else
    if panicked then same (plain_statuses rcpts err_panic) || single || loose
    else same (plain_statuses rcpts ret).

Definition lmtp_oracle (lmtp_session : bool) (rcpts : list bytes) (calls : list (bytes * berr))
           (ret : berr) (panicked : bool) (replies : list bytes) : bool :=
  oracle_core (fun sts => list_bytes_eqb replies (render sts))
              (list_bytes_eqb replies [reply_panic_single])
              (replies_name rcpts replies)
              lmtp_session rcpts calls ret panicked.

Definition lmtp_oracle_strict (lmtp_session : bool) (rcpts : list bytes) (calls : list (bytes * berr))
           (ret : berr) (panicked : bool) (replies : list bytes) : bool :=
  oracle_core (fun sts => list_bytes_eqb replies (render sts))
              (list_bytes_eqb replies [reply_panic_single])
              false
              lmtp_session rcpts calls ret panicked.

(* the same on raw octets: [wire] = everything the server wrote as the final
   response to DATA / BDAT LAST *)
Definition lmtp_oracle_wire (lmtp_session : bool) (rcpts : list bytes) (calls : list (bytes * berr))
           (ret : berr) (panicked : bool) (wire : bytes) : bool :=
  oracle_core (fun sts => bytes_eqb wire (List.concat (render sts)))
              (bytes_eqb wire reply_panic_single)
              (match wire_replies wire with Some gs => replies_name rcpts gs | None => false end)
              lmtp_session rcpts calls ret panicked.

Definition lmtp_oracle_wire_strict (lmtp_session : bool) (rcpts : list bytes) (calls : list (bytes * berr))
           (ret : berr) (panicked : bool) (wire : bytes) : bool :=
  oracle_core (fun sts => bytes_eqb wire (List.concat (render sts)))
              (bytes_eqb wire reply_panic_single)
              false
              lmtp_session rcpts calls ret panicked.

(* convenience for a recording in which the replies to earlier commands were
   merged into the same write: judge the last |rcpts| replies (the last one
   for the single-reply case) *)
Definition lmtp_oracle_tail (lmtp_session : bool) (rcpts : list bytes) (calls : list (bytes * berr))
           (ret : berr) (panicked : bool) (wire : bytes) : bool :=
  match wire_replies wire with
  | Some gs =>
      lmtp_oracle lmtp_session rcpts calls ret panicked (lastn (List.length rcpts) gs)
      || (negb lmtp_session && panicked
          && list_bytes_eqb (lastn 1 gs) [reply_panic_single])
  | None => false
  end.
