(* C08 - each session is logged out exactly once; nothing runs after the
   connection ends.

   For EVERY configuration, backend script, network schedule (every input,
   every segmentation, every point at which the peer disconnects or a read
   fails) and fuel, about the event list of the server model (vocabulary in
   TraceProps.v; [until p l] is the part of [l] before its first element of
   class [p]):

   C08_live_until_logout: after a successful NewSession, until that session's
   Logout no other NewSession happens and the connection is not closed.
   C08_nothing_after_logout: after a Logout, until the next successful
   NewSession, nothing is called on a session: no Mail, Rcpt, Data, BdatStart,
   Reset, Auth, AuthNext, AuthOk - and no second Logout.
   C08_nothing_after_close: after the first Close (QUIT's 221, error
   threshold, too long line, timeout, read error, disconnect, backend panic)
   no command is read, no reply is written, no session is created, no
   callback and no delivery event happens: only the deferred second Close of
   handleConn, (the ghost event of) an already ongoing panic recovery, or
   the model's out-of-fuel marker can follow.
   C08_closed_logged_out: at the first Close no session is live.
   C08_ends_with_close: unless the model's loop ran out of fuel, the trace
   ends with Close (handleConn's deferred Close on every exit path).
   C08_exactly_one_logout: hence, with enough fuel, every successfully
   created session is followed by exactly one Logout, before any other
   session is created and before the connection is closed, and nothing is
   called on it afterwards.
   C08_fuel_enough and the _enough_fuel versions: the fuel bound used by the
   checker, [conv_fuel phases] = 16 + sum over the phases of (size + 4),
   always suffices (every iteration of the loop consumes at least one buffered
   octet or one raw read result, or ends the loop), so these hold with that
   bound and no further hypothesis.
   (Goroutines outliving the connection are the subject of C20's model.) *)
From Smtp Require Import Bytes Transport Reply Conn Order OrderStrict ConnProofs TraceProps ConnNoPanic
  ConnFuel TraceExamples.

Theorem C08_live_until_logout : forall fuel cfg be phases,
  TraceProps.C08_live_until_logout (serve fuel cfg be phases).
Proof. exact serve_C08_live_until_logout. Qed.
Print Assumptions C08_live_until_logout.

Theorem C08_nothing_after_logout : forall fuel cfg be phases,
  TraceProps.C08_nothing_after_logout (serve fuel cfg be phases).
Proof. exact serve_C08_nothing_after_logout. Qed.
Print Assumptions C08_nothing_after_logout.

Theorem C08_nothing_after_close : forall fuel cfg be phases,
  TraceProps.C08_nothing_after_close (serve fuel cfg be phases).
Proof. exact serve_C08_nothing_after_close. Qed.
Print Assumptions C08_nothing_after_close.

Theorem C08_closed_logged_out : forall fuel cfg be phases,
  TraceProps.C08_closed_logged_out (serve fuel cfg be phases).
Proof. exact serve_C08_closed_logged_out. Qed.
Print Assumptions C08_closed_logged_out.

Theorem C08_ends_with_close : forall fuel cfg be phases,
  ~ In EOutOfFuel (serve fuel cfg be phases) ->
  exists tr', serve fuel cfg be phases = tr' ++ [EClose].
Proof. exact serve_ends_with_close. Qed.
Print Assumptions C08_ends_with_close.

Theorem C08_exactly_one_logout : forall fuel cfg be phases,
  ~ In EOutOfFuel (serve fuel cfg be phases) ->
  forall pre h t post, serve fuel cfg be phases = pre ++ ENewSession h t BNil :: post ->
    exists mid rest,
      post = mid ++ ELogout :: rest
      /\ Forall (fun e => negb (is_logout e) && negb (is_ns e) && negb (is_close e) = true) mid
      /\ Forall (fun e => negb (is_session_event e) = true) (until is_ns_ok rest).
Proof. exact serve_C08_exactly_one_logout. Qed.
Print Assumptions C08_exactly_one_logout.

Theorem C08_fuel_enough : forall fuel cfg be phases,
  conv_fuel phases <= fuel -> ~ In EOutOfFuel (serve fuel cfg be phases).
Proof. exact serve_fuel_enough. Qed.
Print Assumptions C08_fuel_enough.

Theorem C08_ends_with_close_enough_fuel : forall fuel cfg be phases,
  conv_fuel phases <= fuel -> exists tr', serve fuel cfg be phases = tr' ++ [EClose].
Proof. exact serve_complete_ends_with_close. Qed.
Print Assumptions C08_ends_with_close_enough_fuel.

Theorem C08_exactly_one_logout_enough_fuel : forall fuel cfg be phases,
  conv_fuel phases <= fuel ->
  forall pre h t post, serve fuel cfg be phases = pre ++ ENewSession h t BNil :: post ->
    exists mid rest,
      post = mid ++ ELogout :: rest
      /\ Forall (fun e => negb (is_logout e) && negb (is_ns e) && negb (is_close e) = true) mid
      /\ Forall (fun e => negb (is_session_event e) = true) (until is_ns_ok rest).
Proof. exact serve_complete_exactly_one_logout. Qed.
Print Assumptions C08_exactly_one_logout_enough_fuel.

(* non-vacuity: the conversation of TraceExamples.ex1 has two sessions (one
   ended by STARTTLS, one by QUIT), each with exactly one Logout, and a NOOP
   pipelined behind QUIT that is never read: nothing but the deferred Close
   follows the first Close. *)
Example C08_witness :
  map show_kind ex1_trace = ex1_shape /\ ~ In EOutOfFuel ex1_trace /\
  count is_ns_ok ex1_trace = 2%nat /\ count is_logout ex1_trace = 2%nat /\
  (exists h t, nth 2 ex1_trace EPanic = ENewSession h t BNil) /\
  map show_kind (skipn 43 ex1_trace) = ["Close"; "Close"]%string /\
  existsb (fun e => match e with ECmd l => bytes_eqb l (bs "NOOP") | _ => false end) ex1_trace = false.
Proof.
  split; [exact ex1_shape_ok|]. split; [exact ex1_fuel_ok|].
  split; [vm_compute; reflexivity|]. split; [vm_compute; reflexivity|].
  split; [do 2 eexists; vm_compute; reflexivity|].
  split; vm_compute; reflexivity.
Qed.
