package harness

import (
	"bytes"
	"errors"
	"fmt"
	"io"
	"runtime"
	"strings"
	"sync"
	"time"

	sasl "github.com/emersion/go-sasl"
	smtp "github.com/emersion/go-smtp"
)

// BErr is a scripted error value: nil, *smtp.SMTPError or a plain error.
type BErr struct {
	Kind string // "nil", "smtp", "plain"
	Code int
	EC   [3]int
	Msg  string
}

var BNil = BErr{Kind: "nil"}

func BSmtp(code int, ec [3]int, msg string) BErr {
	return BErr{Kind: "smtp", Code: code, EC: ec, Msg: msg}
}
func BPlain(msg string) BErr { return BErr{Kind: "plain", Msg: msg} }

var (
	berrMu    sync.Mutex
	berrCache = map[BErr]*smtp.SMTPError{}
)

func (e BErr) Err() error {
	switch e.Kind {
	case "smtp":
		// ONE error value per distinct refusal for the whole run, the way applications declare their refusals
		// (and the library its ErrDataTooLarge): whoever writes into it is heard by everyone after
		berrMu.Lock()
		defer berrMu.Unlock()
		if v, ok := berrCache[e]; ok {
			return v
		}
		v := &smtp.SMTPError{Code: e.Code, EnhancedCode: smtp.EnhancedCode(e.EC), Message: e.Msg}
		berrCache[e] = v
		return v
	case "plain":
		// a plain error whose text says so is ALSO a net.Error that reports a time-out (a backend's own
		// deadline: context.DeadlineExceeded, an upstream i/o timeout): still "any other error" for the server
		if strings.HasPrefix(e.Msg, "timeout:") || strings.Contains(e.Msg, "deadline exceeded") {
			return timeoutishErr(e.Msg)
		}
		return errors.New(e.Msg)
	}
	return nil
}

type timeoutishErr string

func (e timeoutishErr) Error() string   { return string(e) }
func (e timeoutishErr) Timeout() bool   { return true }
func (e timeoutishErr) Temporary() bool { return true }

func (e BErr) Sx() *Sx {
	switch e.Kind {
	case "smtp":
		return L(A("smtp"), Num(int64(e.Code)), Num(int64(e.EC[0])), Num(int64(e.EC[1])), Num(int64(e.EC[2])), XS(e.Msg))
	case "plain":
		return L(A("plain"), XS(e.Msg))
	}
	return A("nil")
}

// ErrSx renders an arbitrary Go error as a berr term.
func ErrSx(err error) *Sx {
	if err == nil {
		return A("nil")
	}
	if se, ok := err.(*smtp.SMTPError); ok {
		return L(A("smtp"), Num(int64(se.Code)), Num(int64(se.EnhancedCode[0])), Num(int64(se.EnhancedCode[1])), Num(int64(se.EnhancedCode[2])), XS(se.Message))
	}
	return L(A("plain"), XS(err.Error()))
}

type StatusCall struct {
	Addr string
	Err  BErr
}

type DataPlan struct {
	Sizes  []int
	Stop   int64 // -1: read until the reader ends
	Retry  int   // keep reading after up to Retry reads that failed with a transport error (retry.go)
	Ret    BErr
	Prop   bool
	Panic  bool
	Status []StatusCall
	Early  bool // LMTPData sets the statuses BEFORE it reads the message (default: after)
	// StatusDelayMs: LMTPData sleeps that long before every SetStatus but the first (slow mailboxes; real-socket kinds)
	StatusDelayMs int
}

func DefaultPlan() DataPlan { return DataPlan{Sizes: []int{4096}, Stop: -1, Ret: BNil, Prop: true} }

func (p DataPlan) Sx() *Sx {
	sizes := L()
	for _, s := range p.Sizes {
		sizes.Add(Num(int64(s)))
	}
	stop := A("none")
	if p.Stop >= 0 {
		stop = Num(p.Stop)
	}
	st := L()
	for _, s := range p.Status {
		st.Add(L(XS(s.Addr), s.Err.Sx()))
	}
	pl := L(A("plan"), L(A("sizes"), sizes), L(A("stop"), stop), L(A("ret"), p.Ret.Sx()),
		L(A("prop"), B(p.Prop)), L(A("panic"), B(p.Panic)), L(A("status"), st))
	if p.Early {
		pl.Add(L(A("early"), B(true)))
	}
	if p.StatusDelayMs > 0 {
		pl.Add(L(A("statusdelay"), Num(int64(p.StatusDelayMs))))
	}
	return pl
}

type SaslStep struct {
	Challenge []byte
	Done      bool
	Err       BErr
}
type AuthPlan struct {
	Start BErr
	Steps []SaslStep
}

func (p AuthPlan) Sx() *Sx {
	st := L()
	for _, s := range p.Steps {
		st.Add(L(A("step"), X(s.Challenge), B(s.Done), s.Err.Sx()))
	}
	return L(A("aplan"), L(A("start"), p.Start.Sx()), L(A("steps"), st))
}

// Script is the backend script, consumed per callback kind.
type Script struct {
	NS   []BErr
	Mail []BErr
	Rcpt []BErr
	Data []DataPlan
	Auth []AuthPlan
}

func (s Script) Sx() *Sx {
	f := func(tag string, es []BErr) *Sx {
		l := L()
		for _, e := range es {
			l.Add(e.Sx())
		}
		return L(A(tag), l)
	}
	d := L()
	for _, p := range s.Data {
		d.Add(p.sxFull())
	}
	a := L()
	for _, p := range s.Auth {
		a.Add(p.Sx())
	}
	return L(A("be"), f("ns", s.NS), f("mail", s.Mail), f("rcpt", s.Rcpt), L(A("data"), d), L(A("auth"), a))
}

// RecBackend obeys a Script and records what it observes.
type RecBackend struct {
	mu         sync.Mutex
	script     Script
	LMTPSess   bool
	AuthMechs  []string // nil: sessions do not implement AuthSession
	Events     []*Sx    // main-loop events in order (shared with the conn's write log)
	Deliveries []*Sx    // BDAT deliveries (own goroutine)
	wg         sync.WaitGroup
	Baseline   int  // runtime.NumGoroutine() while no delivery goroutine exists
	NoSync     bool // do not wait for delivery goroutines (leftovers of an earlier, broken conversation exist)
	// PanicAt makes the n-th (1-based) call of the named callback ("mail", "rcpt", "reset") panic.
	PanicAt map[string]int
	nCalls  map[string]int
	// Gate, if set, is called at named points ("data-begin", "data-return") and may block.
	Gate  func(point string, n int)
	nData int
	// CloseAt: the n-th (1-based) call of the named callback calls CloseFn (Server.Close) from another
	// goroutine and waits for its return; see closeat.go.
	CloseAt   map[string]int
	CloseFn   func() error
	nCloseAt  map[string]int
	closeWait chan struct{}
	shared    smtp.Session // the one session object handed out by NewSession
	RcptDelay time.Duration
}

func (b *RecBackend) add(e *Sx) {
	b.mu.Lock()
	b.Events = append(b.Events, e)
	b.mu.Unlock()
}

// AddWire appends written octets to the event log, merging adjacent writes.
func (b *RecBackend) AddWire(p []byte) {
	b.mu.Lock()
	defer b.mu.Unlock()
	if n := len(b.Events); n > 0 && len(b.Events[n-1].List) == 2 && b.Events[n-1].List[0].Atom == "w" {
		old := b.Events[n-1].List[1].Atom
		b.Events[n-1] = L(A("w"), A(old+X(p).Atom[1:]))
		return
	}
	b.Events = append(b.Events, L(A("w"), X(p)))
}

func (b *RecBackend) popErr(q *[]BErr) BErr {
	b.mu.Lock()
	defer b.mu.Unlock()
	if len(*q) == 0 {
		return BNil
	}
	e := (*q)[0]
	*q = (*q)[1:]
	return e
}

func (b *RecBackend) NewSession(c *smtp.Conn) (smtp.Session, error) {
	e := b.popErr(&b.script.NS)
	st, isTLS := c.TLSConnectionState()
	// what a backend sees of the TLS state while the greeting is processed: a finished handshake
	isTLS = isTLS && st.HandshakeComplete && st.Version != 0 && st.CipherSuite != 0
	b.add(L(A("ns"), XS(c.Hostname()), B(isTLS), e.Sx()))
	b.maybeClose("ns")
	if e.Kind != "nil" {
		return nil, e.Err()
	}
	// every session of a backend is the SAME object (a stateless backend may well hand out one value):
	// the server must not tell sessions apart, or remember anything, by comparing them
	b.mu.Lock()
	if b.shared == nil {
		s := &recSession{b: b}
		switch {
		case b.LMTPSess && b.AuthMechs != nil:
			b.shared = &recLMTPAuthSession{recLMTPSession{s}, recAuth{s}}
		case b.LMTPSess:
			b.shared = &recLMTPSession{s}
		case b.AuthMechs != nil:
			b.shared = &recAuthSession{s, recAuth{s}}
		default:
			b.shared = s
		}
	}
	sh := b.shared
	b.mu.Unlock()
	return sh, nil
}

// Wait waits for outstanding deliveries: the calls in progress, and go-smtp's
// own delivery goroutines that may not have reached the backend yet.
func (b *RecBackend) Wait() bool {
	deadline := time.Now().Add(6 * time.Second)
	for {
		done := make(chan struct{})
		go func() { b.wg.Wait(); close(done) }()
		select {
		case <-done:
		case <-time.After(time.Until(deadline)):
			return false
		}
		if !smtpGoroutinesAlive() {
			return true
		}
		if time.Now().After(deadline) {
			return false
		}
		time.Sleep(200 * time.Microsecond)
	}
}

// SyncPoint makes the order in which scripted data plans are assigned
// deterministic: it is called whenever the command loop reads from or writes to
// the connection, and waits until every delivery goroutine go-smtp has started
// (BDAT) has entered the backend, i.e. has taken its plan.
func (b *RecBackend) SyncPoint() {
	if b.NoSync {
		return
	}
	for i := 0; i < 20000; i++ {
		if runtime.NumGoroutine() <= b.Baseline {
			return
		}
		if !pendingDeliveryGoroutine() {
			return
		}
		if i < 50 {
			runtime.Gosched()
		} else {
			time.Sleep(50 * time.Microsecond)
		}
	}
}

func allStacks() []byte {
	buf := make([]byte, 1<<16)
	for {
		n := runtime.Stack(buf, true)
		if n < len(buf) {
			return buf[:n]
		}
		buf = make([]byte, 2*len(buf))
	}
}

// pendingDeliveryGoroutine: a goroutine created by handleBdat exists that has
// not reached recSession.deliver yet.
func pendingDeliveryGoroutine() bool {
	for _, g := range bytes.Split(allStacks(), []byte("\n\n")) {
		if bytes.Contains(g, []byte("go-smtp.(*Conn).handleBdat.func")) && !bytes.Contains(g, []byte("recSession).deliver")) {
			return true
		}
	}
	return false
}

// smtpGoroutinesAlive reports whether a goroutine started by go-smtp's
// handlers (BDAT / LMTP delivery) still exists.
func smtpGoroutinesAlive() bool {
	buf := make([]byte, 1<<16)
	for {
		n := runtime.Stack(buf, true)
		if n < len(buf) {
			buf = buf[:n]
			break
		}
		buf = make([]byte, 2*len(buf))
	}
	return bytes.Contains(buf, []byte("go-smtp.(*Conn).handleBdat")) || bytes.Contains(buf, []byte("go-smtp.(*Conn).handleDataLMTP"))
}

type recSession struct{ b *RecBackend }

func (s *recSession) Reset() {
	s.b.add(L(A("reset")))
	s.b.maybeClose("reset")
	s.b.maybePanic("reset")
}

func (b *RecBackend) maybePanic(cb string) {
	if b.PanicAt == nil {
		return
	}
	b.mu.Lock()
	if b.nCalls == nil {
		b.nCalls = map[string]int{}
	}
	b.nCalls[cb]++
	hit := b.PanicAt[cb] == b.nCalls[cb]
	b.mu.Unlock()
	if hit {
		panic("verif: scripted backend panic in " + cb)
	}
}

// Logout always reports an error: the server has nothing to do with it but to go on ending the session.
func (s *recSession) Logout() error { s.b.add(L(A("logout"))); return errLogout }

var errLogout = errors.New("verif: Logout reports an error")

func optStr(p *string) *Sx {
	if p == nil {
		return A("none")
	}
	return L(A("some"), XS(*p))
}

func (s *recSession) Mail(from string, o *smtp.MailOptions) error {
	e := s.b.popErr(&s.b.script.Mail)
	defer s.b.maybePanic("mail")
	defer s.b.maybeClose("mail")
	s.b.add(L(A("mail"), XS(from),
		L(A("mo"), XS(string(o.Body)), Num(o.Size), B(o.RequireTLS), B(o.UTF8), XS(string(o.Return)), XS(o.EnvelopeID), optStr(o.Auth)),
		e.Sx()))
	return e.Err()
}

func (s *recSession) Rcpt(to string, o *smtp.RcptOptions) error {
	if s.b.RcptDelay > 0 {
		time.Sleep(s.b.RcptDelay) // a slow recipient check (real-socket kinds only)
	}
	e := s.b.popErr(&s.b.script.Rcpt)
	defer s.b.maybePanic("rcpt")
	defer s.b.maybeClose("rcpt")
	n := L()
	for _, v := range o.Notify {
		n.Add(XS(string(v)))
	}
	rr := A("none")
	if !o.RequireRecipientValidSince.IsZero() {
		t := o.RequireRecipientValidSince
		_, off := t.Zone()
		rr = L(A("rrvs"), Num(t.Unix()), Num(int64(t.Nanosecond())), Num(int64(off)))
	}
	s.b.add(L(A("rcpt"), XS(to), L(A("ro"), n, XS(string(o.OriginalRecipientType)), XS(o.OriginalRecipient), rr), e.Sx()))
	return e.Err()
}

func (s *recSession) popPlan() DataPlan {
	s.b.mu.Lock()
	defer s.b.mu.Unlock()
	if len(s.b.script.Data) == 0 {
		return DefaultPlan()
	}
	p := s.b.script.Data[0]
	s.b.script.Data = s.b.script.Data[1:]
	return p
}

// deliver implements Data and LMTPData.
func (s *recSession) deliver(r io.Reader, status smtp.StatusCollector) (ret error) {
	p := s.popPlan()
	_, isPipe := r.(*io.PipeReader)
	r = withRetry(r, p.Retry)
	s.b.wg.Add(1)
	defer s.b.wg.Done()
	s.b.mu.Lock()
	s.b.nData++
	k := s.b.nData
	var slot int
	if !isPipe {
		slot = len(s.b.Events)
		s.b.Events = append(s.b.Events, L(A("data-pending")))
	}
	s.b.mu.Unlock()
	if s.b.Gate != nil {
		s.b.Gate("data-begin", k)
	}
	if !isPipe {
		s.b.maybeClose("data-begin")
	}
	if status != nil && p.Early {
		for _, sc := range p.Status {
			status.SetStatus(sc.Addr, sc.Err.Err())
		}
	}
	got, rerr := readPlanCap(r, p.Sizes, p.Stop, isPipe)
	if !isPipe {
		s.b.maybeClose("data-end")
	}
	term := ErrKind(rerr)
	planRet := p.Ret.Err()
	// (recorded from the script, not read back from the shared error value: see BErr.Err)
	planRetSx := p.Ret.Sx()
	if rerr != nil && !errors.Is(rerr, io.EOF) && p.Prop {
		planRet = rerr
		planRetSx = ErrSx(rerr)
	}
	rec := func(panicked bool) {
		tag := "data"
		if isPipe {
			tag = "del"
		}
		e := L(A(tag), X(got), A(term), planRetSx, B(panicked))
		s.b.mu.Lock()
		if isPipe {
			s.b.Deliveries = append(s.b.Deliveries, e)
		} else {
			s.b.Events[slot] = e
		}
		s.b.mu.Unlock()
	}
	if s.b.Gate != nil {
		s.b.Gate("data-return", k)
	}
	panicked := true
	defer func() {
		// a SetStatus panic, or the scripted one
		if panicked {
			rec(true)
		}
	}()
	if status != nil && !p.Early {
		for i, sc := range p.Status {
			if i > 0 && p.StatusDelayMs > 0 {
				time.Sleep(time.Duration(p.StatusDelayMs) * time.Millisecond)
			}
			status.SetStatus(sc.Addr, sc.Err.Err())
		}
	}
	if p.Panic {
		panic(fmt.Sprintf("verif: scripted backend panic %d", k))
	}
	panicked = false
	rec(false)
	return planRet
}

func (s *recSession) Data(r io.Reader) error { return s.deliver(r, nil) }

type recLMTPSession struct{ *recSession }

func (s *recLMTPSession) LMTPData(r io.Reader, status smtp.StatusCollector) error {
	return s.deliver(r, status)
}

type recAuth struct{ s *recSession }

func (a recAuth) AuthMechanisms() []string { return a.s.b.AuthMechs }
func (a recAuth) Auth(mech string) (sasl.Server, error) {
	b := a.s.b
	b.mu.Lock()
	p := AuthPlan{Start: BNil}
	if len(b.script.Auth) > 0 {
		p = b.script.Auth[0]
		b.script.Auth = b.script.Auth[1:]
	}
	b.mu.Unlock()
	b.add(L(A("auth"), XS(mech), p.Start.Sx()))
	if p.Start.Kind != "nil" {
		return nil, p.Start.Err()
	}
	return &recSasl{b: b, steps: p.Steps}, nil
}

type recSasl struct {
	b     *RecBackend
	steps []SaslStep
}

func (r *recSasl) Next(resp []byte) ([]byte, bool, error) {
	st := SaslStep{Done: true, Err: BNil}
	if len(r.steps) > 0 {
		st = r.steps[0]
		r.steps = r.steps[1:]
	}
	rs := A("none")
	if resp != nil {
		rs = L(A("some"), X(resp))
	}
	r.b.add(L(A("authnext"), rs, X(st.Challenge), B(st.Done), st.Err.Sx()))
	r.b.maybeClose("authnext")
	return st.Challenge, st.Done, st.Err.Err()
}

type recAuthSession struct {
	*recSession
	recAuth
}
type recLMTPAuthSession struct {
	recLMTPSession
	recAuth
}
