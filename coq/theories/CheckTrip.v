(* kind trip: the real go-smtp client against the real go-smtp server.

   The judgement here is the property text applied to what was OBSERVED on
   both ends (what the caller gave the client API, what each call returned,
   what the server's backend received): envelope and options (C14), message
   body and Close (C16), backend errors (C17), LMTP statuses (C18). *)
From Smtp Require Import Bytes Sx GoStrings Transport DataReader Reply Rfc3339 Lmtp Conn DotWriter
                         CheckBase CheckOracle CheckConv.
Local Open Scope char_scope.

(* ---------- decoding ---------- *)

Inductive res := RNilR | RSmtpR (code : Z) (ec : ecode) (msg : bytes) | RLocalR (msg : bytes).

Definition dec_res (x : sx) : option res :=
  match x with
  | SL [t; c; e1; e2; e3; m] =>
      if sx_is "smtp" t then
        match sx_Z c, sx_Z e1, sx_Z e2, sx_Z e3, sx_bytes m with
        | Some c, Some e1, Some e2, Some e3, Some m => Some (RSmtpR c (e1, e2, e3) m)
        | _, _, _, _, _ => None
        end
      else None
  | SL [t; m] =>
      (* (write-error m): a Write of the data writer failed - a local error, recorded in front of the
         results of the Close calls *)
      if sx_is "local" t || sx_is "write-error" t then option_map RLocalR (sx_bytes m) else None
  | _ => if sx_is "nil" x then Some RNilR else None
  end.

Inductive call :=
| KHello (name : bytes)
| KMail (from : bytes) (o : option mail_opts)
| KRcpt (to : bytes) (o : option rcpt_opts)
| KData (lmtp : bool) (parts : list bytes) (cb : bool) (closes : nat)
| KReset | KNoop | KQuit.

Definition dec_call (x : sx) : option call :=
  match x with
  | SL [t] =>
      if sx_is "reset" t then Some KReset else if sx_is "noop" t then Some KNoop
      else if sx_is "quit" t then Some KQuit else None
  | SL [t; a] => if sx_is "hello" t then option_map KHello (sx_bytes a) else None
  | SL [t; a; o] =>
      if sx_is "mail" t then
        match sx_bytes a with
        | Some a => if sx_is "none" o then Some (KMail a None) else option_map (fun m => KMail a (Some m)) (dec_mo o)
        | None => None
        end
      else if sx_is "rcpt" t then
        match sx_bytes a with
        | Some a => if sx_is "none" o then Some (KRcpt a None) else option_map (fun m => KRcpt a (Some m)) (dec_ro o)
        | None => None
        end
      else None
  | SL [t; SL ps; cb; n] =>
      if sx_is "data" t || sx_is "lmtpdata" t then
        match map_opt sx_bytes ps, sx_bool cb, sx_nat n with
        | Some ps, Some cb, Some n => Some (KData (sx_is "lmtpdata" t) ps cb n)
        | _, _, _ => None
        end
      else None
  | SL [t; SL ps; cb; n; SL [pz; SL _]] =>
      (* (pauses (ms ...)): the caller slept before its Writes / before Close (harness/gentripw.go);
         the judgement is the same *)
      if (sx_is "data" t || sx_is "lmtpdata" t) && sx_is "pauses" pz then
        match map_opt sx_bytes ps, sx_bool cb, sx_nat n with
        | Some ps, Some cb, Some n => Some (KData (sx_is "lmtpdata" t) ps cb n)
        | _, _, _ => None
        end
      else None
  | _ => None
  end.

(* the result of a call: for data calls the list (result of Data, results of the Close calls) *)
Definition dec_results (x : sx) : option (list res) :=
  match dec_res x with
  | Some r => Some [r]
  | None => match x with SL l => map_opt dec_res l | _ => None end
  end.

(* ---------- C14 ---------- *)

Definition optb_eqb (a b : option bytes) : bool :=
  match a, b with
  | None, None => true
  | Some x, Some y => bytes_eqb x y
  | _, _ => false
  end.

Definition rtime_eqb (a b : option rtime) : bool :=
  match a, b with
  | None, None => true
  | Some x, Some y => (rt_unix x =? rt_unix y)%Z   (* the same instant, to the second *)
  | _, _ => false
  end.

(* Body: the value given; when none was given, the documented default of
   Client.Mail (BODY=8BITMIME iff the server offers 8BITMIME) *)
Definition body_matches (given seen : mail_opts) : bool :=
  match mo_body given with
  | [] => match mo_body seen with [] => true | b => bytes_eqb b (bs "8BITMIME") end
  | b => bytes_eqb b (mo_body seen)
  end.

(* what the backend must see for the options the caller gave *)
Definition mo_matches (given seen : mail_opts) : bool :=
  body_matches given seen
  && (mo_size given =? mo_size seen)%Z && Bool.eqb (mo_requiretls given) (mo_requiretls seen)
  && Bool.eqb (mo_utf8 given) (mo_utf8 seen) && bytes_eqb (mo_ret given) (mo_ret seen)
  && bytes_eqb (mo_envid given) (mo_envid seen) && optb_eqb (mo_auth given) (mo_auth seen).

Definition ro_matches (given seen : rcpt_opts) : bool :=
  list_bytes_eqb (ro_notify given) (ro_notify seen)
  && (match ro_orcpt given with
      | [] => match ro_orcpt seen with [] => true | _ => false end
      | a => bytes_eqb (ro_orcpt_type given) (ro_orcpt_type seen) && bytes_eqb a (ro_orcpt seen)
      end)
  && rtime_eqb (ro_rrvs given) (ro_rrvs seen).

(* an address the property speaks about: no SP/HT/brackets, not starting with a quote or '@',
   non-empty local part and domain (the complement is known finding F25) *)
Definition addr_simple (a : bytes) : bool :=
  negb (existsb (fun c => Ascii.eqb c " " || Ascii.eqb c HT || Ascii.eqb c "<" || Ascii.eqb c ">"
                          || Ascii.eqb c CR || Ascii.eqb c LF) a)
  && match a with
     | c :: _ => negb (Ascii.eqb c """") && negb (Ascii.eqb c "@")
     | [] => false
     end
  && match cut_byte "@" a with
     | Some (_ :: _, _ :: _) => true
     | _ => false
     end.

Definition next_mail (evs : list event) : option (bytes * mail_opts * list event) :=
  (fix go (l : list event) :=
     match l with
     | EMail f o _ :: r => Some (f, o, r)
     | _ :: r => go r
     | [] => None
     end) evs.
Definition next_rcpt (evs : list event) : option (bytes * rcpt_opts * list event) :=
  (fix go (l : list event) :=
     match l with
     | ERcpt f o _ :: r => Some (f, o, r)
     | _ :: r => go r
     | [] => None
     end) evs.

Definition is_nil_res (r : res) : bool := match r with RNilR => true | _ => false end.

(* (violations, known-finding tags); a transaction whose MAIL did not go through is not judged further *)
Fixpoint c14_walk (calls : list call) (results : list (list res)) (evs : list event)
  : list bytes * list bytes :=
  match calls, results with
  | KMail from o :: cs, [r] :: rs =>
      let given := match o with Some m => m | None => mo_zero end in
      let '(v, k, evs') :=
        match r with
        | RLocalR _ => ([], [], evs)     (* the API refused the envelope: nothing to preserve *)
        | RSmtpR _ _ _ =>
            (* accepted by the API, refused by a server that has every extension enabled *)
            if addr_simple from then ([bs "C14"], [], evs) else ([bs "C14"], [bs "F25"], evs)
        | RNilR =>
            match next_mail evs with
            | Some (f, seen, evs') =>
                let ok := bytes_eqb f from && mo_matches given seen in
                (if ok then [] else [bs "C14"],
                 if ok || addr_simple from then [] else [bs "F25"],
                 evs')
            | None => ([bs "C14"], [], evs)
            end
        end in
      let '(v2, k2) := if is_nil_res r then c14_walk cs rs evs' else ([], []) in (v ++ v2, k ++ k2)
  | KRcpt to o :: cs, [r] :: rs =>
      let given := match o with Some m => m | None => ro_zero end in
      let '(v, k, evs') :=
        match r with
        | RLocalR _ => ([], [], evs)
        | RSmtpR _ _ _ => if addr_simple to then ([bs "C14"], [], evs) else ([bs "C14"], [bs "F25"], evs)
        | RNilR =>
            match next_rcpt evs with
            | Some (f, seen, evs') =>
                let ok := bytes_eqb f to && ro_matches given seen in
                (if ok then [] else [bs "C14"], if ok || addr_simple to then [] else [bs "F25"], evs')
            | None => ([bs "C14"], [], evs)
            end
        end in
      let '(v2, k2) := c14_walk cs rs evs' in (v ++ v2, k ++ k2)
  | _ :: cs, _ :: rs => c14_walk cs rs evs
  | _, _ => ([], [])
  end.

(* ---------- C16 ---------- *)

Definition first_data (evs : list event) : option (bytes * berr) :=
  (fix go (l : list event) :=
     match l with
     | EData g _ r _ :: _ => Some (g, r)
     | _ :: r => go r
     | [] => None
     end) evs.

Definition is_local (r : res) : bool := match r with RLocalR _ => true | _ => false end.
Definition is_nil (r : res) : bool := match r with RNilR => true | _ => false end.

(* walk through the calls: every transaction's envelope and message must arrive as given *)
Fixpoint next_data (evs : list event) : option (bytes * bool * berr * list event) :=
  match evs with
  | EData g tm r _ :: rest => Some (g, is_eof tm, r, rest)
  | _ :: rest => next_data rest
  | [] => None
  end.

(* "<rcpt> text" -> text (the LMTP server names the recipient in front of the backend's text) *)
Fixpoint after_rcpt_prefix (m : bytes) : option bytes :=
  match m with
  | ">"%char :: " "%char :: r => Some r
  | " "%char :: _ => None
  | _ :: r => after_rcpt_prefix r
  | [] => None
  end.

(* Close reports the backend's refusal: its code, and its text - as it is, or behind one "<rcpt> " *)
Definition close_reports (c1 : res) (verdict : berr) : bool :=
  match verdict, c1 with
  | BSmtp c _ m, RSmtpR c' _ m' =>
      (c =? c')%Z && (bytes_eqb m' m
                      || match m' with
                         | "<"%char :: r => match after_rcpt_prefix r with Some t => bytes_eqb t m | None => false end
                         | _ => false
                         end)
  | _, _ => true
  end.

Fixpoint c16_walk (calls : list call) (results : list (list res)) (evs : list event) : bool :=
  match calls, results with
  | KMail from _ :: cs, [r] :: rs =>
      if is_nil r then
        match next_mail evs with
        | Some (f, _, evs') => bytes_eqb f from && c16_walk cs rs evs'
        | None => false
        end
      else c16_walk cs rs evs
  | KRcpt to _ :: cs, [r] :: rs =>
      if is_nil r then
        match next_rcpt evs with
        | Some (f, _, evs') => bytes_eqb f to && c16_walk cs rs evs'
        | None => false
        end
      else c16_walk cs rs evs
  | KData _ parts _ closes :: cs, (r0 :: closeres) :: rs =>
      let body := List.concat parts in
      is_nil r0 &&
      match next_data evs with
      | Some (got, whole, verdict, evs') =>
          (* a backend that stopped reading before the end saw a prefix of the message *)
          (negb (cr_only_in_crlf body)
           || (if whole then bytes_eqb got (normalise body) else is_prefix got (normalise body)))
          && match closeres with
             | c1 :: _ => match verdict with BNil => is_nil c1
                                            | _ => negb (is_nil c1) && negb (is_local c1) && close_reports c1 verdict end
             | [] => false
             end
          && match closeres with
             | _ :: c2 :: _ => is_local c2
             | _ => true
             end
          && c16_walk cs rs evs'
      | None => false
      end
  | KNoop :: cs, [r] :: rs => is_nil r && c16_walk cs rs evs
  | KQuit :: cs, [r] :: rs => is_nil r && c16_walk cs rs evs
  | _ :: cs, _ :: rs => c16_walk cs rs evs
  | _, _ => true
  end.

Definition count_data (calls : list call) : nat :=
  List.length (filter (fun k => match k with KData _ _ _ _ => true | _ => false end) calls).

Definition c16_judge (calls : list call) (results : list (list res)) (evs : list event) (sent : bytes)
  : list bytes :=
  let walk := (List.length calls =? List.length results)%nat && c16_walk calls results evs in
  (* single-message cases end with NOOP, QUIT: nothing but the message and those two commands crossed
     after DATA - no second exchange, no stray terminator *)
  let ok_wire :=
    match filter (fun k => match k with KData _ _ _ _ => true | _ => false end) calls with
    | [KData _ parts _ _] =>
        is_suffix (dot_write_all parts ++ bs "NOOP" ++ crlf ++ bs "QUIT" ++ crlf) sent
    | _ => true
    end in
  if walk && ok_wire then [] else [bs "C16"].

(* ---------- C17 ---------- *)

Definition expected_err (site : N) (e : berr) : option res :=
  match e with
  | BNil => Some RNilR
  | BSmtp c ec m => Some (RSmtpR c (default_ec c ec) m)
  | BPlain m =>
      if (site =? 3)%N then Some (RSmtpR 554 (5, 0, 0)%Z (bs "Error: transaction failed: " ++ m))
      else Some (RSmtpR 451 (4, 0, 0)%Z m)
  end.

Definition res_eqb (a b : res) : bool :=
  match a, b with
  | RNilR, RNilR => true
  | RSmtpR c e m, RSmtpR c' e' m' => (c =? c')%Z && ec_eqb e e' && bytes_eqb m m'
  | RLocalR m, RLocalR m' => bytes_eqb m m'
  | _, _ => false
  end.

Definition c17_judge (site : N) (e : berr) (results : list (list res)) : list bytes * list bytes :=
  let idx := match site with 0%N | 1%N => 0 | 2%N => 1 | _ => 2 end%nat in
  let got :=
    match nth_error results idx with
    | Some rs => match rev rs with r :: _ => Some r | [] => None end
    | None => None
    end in
  match got, expected_err site e with
  | Some g, Some want =>
      if res_eqb g want then ([], [])
      else match e with
           | BSmtp _ ec _ => if ec_eqb ec no_ec then ([bs "C17"], [bs "F27"]) else ([bs "C17"], [])
           | _ => ([bs "C17"], [])
           end
  | _, _ => ([bs "C17"], [])
  end.

(* ---------- C18 ---------- *)

(* callbacks recorded as (rcpt, status) with an (end) marker after each first Close *)
Inductive cbev := CbCall (rcpt : bytes) (st : res) | CbEnd.

Definition dec_cb (x : sx) : option cbev :=
  match x with
  | SL [t] => if sx_is "end" t then Some CbEnd else None
  | SL [a; s] => match sx_bytes a, dec_res s with Some a, Some s => Some (CbCall a s) | _, _ => None end
  | _ => None
  end.

Fixpoint take_cbs (l : list cbev) : list (bytes * res) * list cbev :=
  match l with
  | CbCall a s :: r => let '(x, y) := take_cbs r in ((a, s) :: x, y)
  | CbEnd :: r => ([], r)
  | [] => ([], [])
  end.

Definition plan_status (p : data_plan) (a : bytes) : res :=
  match find (fun '(x, _) => bytes_eqb x a) (dp_status p) with
  | Some (_, BSmtp c ec m) => RSmtpR c (default_ec c ec) (bs "<" ++ a ++ bs "> " ++ m)
  | Some (_, BPlain m) => RSmtpR 554 (5, 0, 0)%Z (bs "<" ++ a ++ bs "> Error: transaction failed: " ++ m)
  | _ => match dp_ret p with
         | BSmtp c ec m => RSmtpR c (default_ec c ec) (bs "<" ++ a ++ bs "> " ++ m)
         | BPlain m => RSmtpR 554 (5, 0, 0)%Z (bs "<" ++ a ++ bs "> Error: transaction failed: " ++ m)
         | BNil => RNilR
         end
  end.

Fixpoint c18_walk (calls : list call) (results : list (list res)) (plans : list data_plan)
                  (cbs : list cbev) (accepted : list bytes) : bool :=
  match calls, results with
  | KMail _ _ :: cs, _ :: rs => c18_walk cs rs plans cbs []
  | KRcpt to _ :: cs, [r] :: rs => c18_walk cs rs plans cbs (if is_nil r then accepted ++ [to] else accepted)
  | KData _ _ cb _ :: cs, (r0 :: closeres) :: rs =>
      let '(p, plans') := match plans with p :: r => (p, r) | [] => (dp_default, []) end in
      let '(mine, cbs') := take_cbs cbs in
      let want := map (fun a => (a, plan_status p a)) accepted in
      let ok_cb :=
        if cb then
          (List.length mine =? List.length want)%nat
          && forallb (fun '((a, s), (a', s')) => bytes_eqb a a' && res_eqb s s') (combine mine want)
        else match mine with [] => true | _ => false end in
      let ok_close :=
        match closeres with
        | c1 :: _ =>
            if cb then is_nil c1
            else match find (fun '(_, s) => negb (is_nil s)) want with
                 | Some (_, s) => res_eqb c1 s
                 | None => is_nil c1
                 end
        | [] => false
        end in
      is_nil r0 && ok_cb && ok_close && c18_walk cs rs plans' cbs' accepted
  | KNoop :: cs, [r] :: rs => is_nil r && c18_walk cs rs plans cbs accepted
  | _ :: cs, _ :: rs => c18_walk cs rs plans cbs accepted
  | _, _ => true
  end.

(* ---------- the check ---------- *)

Definition check_trip (args : list sx) : verdict :=
  match assoc "cfg" args, assoc "be" args, assoc1 "calls" args, assoc "obs" args with
  | Some cfga, Some bea, Some (SL callx), Some obs =>
      match dec_cfg cfga, dec_backend bea, map_opt dec_call callx,
            assoc1 "results" obs, assoc1 "events" obs, assoc1 "callbacks" obs, assoc1 "sent" obs with
      | Some cfg, Some be, Some calls, Some (SL resx), Some (SL evx), Some (SL cbx), Some sentx =>
          match map_opt dec_results resx, map_opt dec_event evx, map_opt dec_cb cbx, sx_bytes sentx with
          | Some results, Some evs, Some cbs, Some sent =>
              let expect := match assoc "expect" args with Some e => e | None => [] end in
              let focus := focus_of expect in
              let '(viol, kf) :=
                if bytes_eqb focus (bs "C14") then c14_walk calls results evs
                else if bytes_eqb focus (bs "C16") then (c16_judge calls results evs sent, [])
                else if bytes_eqb focus (bs "C17") then
                  match assoc1 "site" expect, assoc1 "err" expect with
                  | Some s, Some e =>
                      match sx_N s, dec_berr e with
                      | Some s, Some e => c17_judge s e results
                      | _, _ => ([bs "UNDECODABLE-EXPECTATION"], [])
                      end
                  | _, _ => ([bs "UNDECODABLE-EXPECTATION"], [])
                  end
                else if bytes_eqb focus (bs "C18") then
                  (if c18_walk calls results (be_data be) cbs [] then [] else [bs "C18"], [])
                else ([], []) in
              let panics := match assoc1 "panics" obs with Some p => match sx_N p with Some n => n | None => 0%N end | None => 0%N end in
              mkV true true (SL []) (dedup (viol ++ oracle_panics panics false)) (dedup kf)
                  ([bs "trip-" ++ focus;
                    if (List.length calls =? List.length results)%nat then bs "complete" else bs "short"]
                   ++ match assoc1 "slow-caller" expect with
                      | Some (SA a) => [bs "slow-caller-" ++ a]
                      | _ => []
                      end)
          | _, _, _, _ => bad_case
          end
      | _, _, _, _, _, _, _ => bad_case
      end
  | _, _, _, _ => bad_case
  end.

(* ---------- kind sm: package-level SendMail / DialStartTLS against a scripted TCP server ---------- *)
(* what reached the server in plaintext must be greeting-level lines only (C10: no envelope,
   credentials or content in plaintext when STARTTLS is not offered, refused, or the handshake fails;
   and with a successful upgrade everything else travels inside TLS) *)

Definition plain_line_ok (l : bytes) : bool :=
  let u := to_upper l in
  is_prefix (bs "EHLO ") u || is_prefix (bs "HELO ") u || is_prefix (bs "LHLO ") u
  || bytes_eqb u (bs "STARTTLS") || bytes_eqb u (bs "QUIT").

Definition check_sm (args : list sx) : verdict :=
  match assoc1 "behaviour" args, assoc "obs" args with
  | Some (SA beh), Some obs =>
      match assoc1 "plain" obs, assoc1 "tls" obs, assoc1 "result" obs with
      | Some (SL pl), Some (SL tl), Some r =>
          match map_opt sx_bytes pl, map_opt sx_bytes tl with
          | Some plain, Some intls =>
              let tls_ok := bytes_eqb beh (bs "tls-ok") in
              let ok_plain := forallb plain_line_ok plain in
              (* without a successful upgrade the call must fail and nothing travels inside TLS *)
              let ok_result :=
                if tls_ok then sx_is "nil" r && negb (match intls with [] => true | _ => false end)
                else negb (sx_is "nil" r) && match intls with [] => true | _ => false end in
              mkV true true (SL []) (if ok_plain && ok_result then [] else [bs "C10"]) []
                  [bs "sm-" ++ beh]
          | _, _ => bad_case
          end
      | _, _, _ => bad_case
      end
  | _, _ => bad_case
  end.
