(* C07 - an incomplete message is never presented as complete.
   READER-LEVEL part for DATA (BDAT and the replies are separate).

   * C07_prefix_incomplete (specification, every octet string s): if s holds
     a complete message, then EVERY proper prefix of the part of s up to and
     including the end marker - every cut offset k < |s| - |rest|, also
     inside the marker itself - is Incomplete.  C07_cut_incomplete: the same
     with the offset counted as k < |pre| + 3 for s = pre ++ ".CRLF" ++ rest.
   * C07_data_incomplete: for every size limit mx, every transport state t
     (ANY schedule delivering the stream, ended by ANY failure: EOF, timeout,
     network error) on which the line limiter stays quiet, every list of
     read sizes and every stopping point: if the stream holds no complete
     message, the reader's result is never io.EOF and the reader never
     reaches its end state; the result is the schedule's failure
     (io.ErrUnexpectedEOF for EOF) or - only with 0 < mx < |body| -
     ErrDataTooLarge, or the backend stopped by itself.
   * C07_data_incomplete_error: the same for a backend that reads to the end.
   * C07_data_cut: the two combined - for every stream with a complete
     message, every cut offset before the end of the marker, every schedule
     delivering the cut stream and every failure ending it: never io.EOF,
     neither from the backend's reads nor (when the connection delivers
     nothing after the failure) from the post-delivery drain. *)
From Smtp Require Import Bytes Transport DataReader DotSpec TransportProofs DataProofs DataProofs2.

Theorem C07_prefix_incomplete s body rest k :
  unstuff s = Complete body rest ->
  k < List.length s - List.length rest ->
  exists b, unstuff (firstn k s) = Incomplete b.
Proof. exact (unstuff_prefix_incomplete s body rest k). Qed.
Print Assumptions C07_prefix_incomplete.

Theorem C07_cut_incomplete pre rest body k :
  unstuff (pre ++ end_marker ++ rest) = Complete body rest ->
  k < List.length pre + 3 ->
  exists b, unstuff (firstn k (pre ++ end_marker ++ rest)) = Incomplete b.
Proof. exact (unstuff_cut_incomplete pre rest body k). Qed.
Print Assumptions C07_cut_incomplete.

Theorem C07_data_incomplete (mx : Z) (sizes : list nat) (stop : option N) (t : transport) body :
  transparent t ->
  unstuff (tstream t) = Incomplete body ->
  let '(out, e, d', t') := backend_reads sizes stop (new_data_reader mx) t in
  e <> Some REOF /\ d_state d' <> SEOF /\
  ((exists k, stop = Some k /\ e = None) \/
   e = Some (rerr_of_terr (tterm t)) \/
   (e = Some RTooLarge /\ (0 < mx)%Z /\ (mx < Z.of_nat (List.length body))%Z)).
Proof. exact (data_incomplete_never_eof mx sizes stop t body). Qed.
Print Assumptions C07_data_incomplete.

Theorem C07_data_incomplete_error (mx : Z) (sizes : list nat) (t : transport) body :
  transparent t ->
  unstuff (tstream t) = Incomplete body ->
  let '(out, e, d', t') := backend_reads sizes None (new_data_reader mx) t in
  e <> Some REOF /\
  (e = Some (rerr_of_terr (tterm t)) \/
   (e = Some RTooLarge /\ (0 < mx)%Z /\ (mx < Z.of_nat (List.length body))%Z)).
Proof. exact (data_incomplete_error mx sizes t body). Qed.
Print Assumptions C07_data_incomplete_error.

Theorem C07_data_cut (mx : Z) (sizes : list nat) (stop : option N)
        (s body rest : bytes) (k : nat) (t : transport) :
  unstuff s = Complete body rest ->
  k < List.length s - List.length rest ->
  transparent t -> tstream t = firstn k s ->
  let '(out, e, d1, t1) := backend_reads sizes stop (new_data_reader mx) t in
  e <> Some REOF /\ d_state d1 <> SEOF /\
  (stop = None -> e = Some (rerr_of_terr (tterm t)) \/ e = Some RTooLarge) /\
  (raws_after (t_raw t) = [] ->
   let '(de, d2, t2) := dr_drain d1 t1 in exists x, de = Some (rerr_of_terr x)).
Proof. exact (data_cut_never_eof mx sizes stop s body rest k t). Qed.
Print Assumptions C07_data_cut.

Theorem C07_drain_never_eof (mx : Z) (sizes : list nat) (stop : option N) (t : transport) body :
  transparent t ->
  unstuff (tstream t) = Incomplete body ->
  raws_after (t_raw t) = [] ->
  let '(out, e, d1, t1) := backend_reads sizes stop (new_data_reader mx) t in
  let '(de, d2, t2) := dr_drain d1 t1 in
  e <> Some REOF /\ (exists x, de = Some (rerr_of_terr x)) /\ t_buf t2 = [] /\ t_raw t2 = [].
Proof. exact (drain_incomplete_never_eof mx sizes stop t body). Qed.
Print Assumptions C07_drain_never_eof.

(* non-vacuity: the stream of C02_witness cut at offset 7 (inside the end
   marker, after ".CR") and ended by a timeout satisfies all hypotheses; see
   also DataProofs2.prefix_incomplete_witness (all 11 cut points of a stream) *)
Example C07_witness :
  transparent wit_cut /\
  unstuff (tstream wit_cut) = Incomplete (bs "abc" ++ [CR; LF; CR]) /\
  tstream wit_cut = firstn 7 (tstream wit_t) /\
  7 < List.length (tstream wit_t) - List.length (bs "NOOP" ++ [CR; LF]) /\
  raws_after (t_raw wit_cut) = [] /\
  (let '(out, e, d1, t1) := backend_reads [3] None (new_data_reader 0) wit_cut in
   let '(de, d2, t2) := dr_drain d1 t1 in (out, e, de))
  = (bs "abc" ++ [CR; LF], Some (RTransport TTimeout), Some RUnexpectedEOF).
Proof. vm_compute. repeat split; reflexivity. Qed.
