(* BDAT (RFC 3030 chunking): framing by octet count, binary transparency,
   resumption of the command stream behind the declared size, the size limit
   and the replies - proofs about Transport.t_copy_n, Conn.discard_chunk,
   the pipe model (bd_new / bd_feed / bd_end) and Conn.handle_bdat.

   Everything here starts from the state in which the BDAT command line has
   been read: the copy runs with LineLimit = 0, so the line limiter is out of
   the picture whatever its counter is.  What happened to payload octets that
   were pulled into the bufio buffer together with the command line (they
   passed the limiter while it was still on: finding F6) is outside. *)
From Smtp Require Import Bytes GoStrings Transport DataReader Parse Reply Lmtp Conn
  TransportProofs LmtpSpec LmtpProofs CheckLmtpProofs Order OrderStrict ConnProofs.
Local Open Scope N_scope.

(* ====================================================================== *)
(* 1. octet strings                                                        *)
(* ====================================================================== *)

Lemma blen_nil : blen [] = 0.
Proof. reflexivity. Qed.

Lemma blen_cons c s : blen (c :: s) = N.succ (blen s).
Proof. unfold blen. cbn [List.length]. lia. Qed.

Lemma blen_app a b : blen (a ++ b) = blen a + blen b.
Proof. unfold blen. rewrite app_length. lia. Qed.

Lemma blen_zero s : blen s = 0 -> s = [].
Proof. destruct s; [reflexivity|]. rewrite blen_cons. lia. Qed.

Lemma take_N_zero s : take_N 0 s = ([], s, 0).
Proof. destruct s; reflexivity. Qed.

Lemma take_N_cons n c t :
  n <> 0 -> take_N n (c :: t) = let '(a, b, m) := take_N (N.pred n) t in (c :: a, b, m).
Proof. intros H. cbn [take_N]. apply N.eqb_neq in H. rewrite H. reflexivity. Qed.

(* what take_N returns: a split of the string; either the count is used up or
   the string is *)
Lemma take_N_split s : forall n a b m,
  take_N n s = (a, b, m) -> s = a ++ b /\ blen a + m = n /\ (m = 0 \/ b = []).
Proof.
  induction s as [|c t IH]; intros n a b m H.
  - cbn in H. inversion H; subst. split; [reflexivity|]. split; [rewrite blen_nil; lia|right; reflexivity].
  - destruct (N.eq_dec n 0) as [-> | Hn].
    + rewrite take_N_zero in H. inversion H; subst. split; [reflexivity|]. split; [reflexivity|left; reflexivity].
    + rewrite take_N_cons in H by exact Hn.
      destruct (take_N (N.pred n) t) as [[a' b'] m'] eqn:E.
      inversion H; subst. destruct (IH _ _ _ _ E) as (H1 & H2 & H3).
      subst t. split; [reflexivity|]. split; [rewrite blen_cons; lia|exact H3].
Qed.

Lemma app_eq_len {A} (l1 l2 r1 r2 : list A) :
  l1 ++ r1 = l2 ++ r2 -> List.length l1 = List.length l2 -> l1 = l2 /\ r1 = r2.
Proof.
  revert l2; induction l1 as [|x l1 IH]; intros [|y l2] H Hl; try discriminate.
  - split; [reflexivity|exact H].
  - cbn in H. inversion H; subst. destruct (IH l2 H2) as [-> ->]; [cbn in Hl; lia|]. split; reflexivity.
Qed.

Lemma app_eq_blen (l1 l2 r1 r2 : bytes) :
  l1 ++ r1 = l2 ++ r2 -> blen l1 = blen l2 -> l1 = l2 /\ r1 = r2.
Proof. intros H Hl. apply app_eq_len; [exact H|unfold blen in Hl; lia]. Qed.

Lemma app_eq_shorter {A} (a : list A) : forall l1 r1 R,
  l1 ++ r1 = a ++ R -> (List.length a <= List.length l1)%nat ->
  exists p', l1 = a ++ p' /\ R = p' ++ r1.
Proof.
  induction a as [|x a IH]; intros l1 r1 R H Hl.
  - exists l1. split; [reflexivity|symmetry; exact H].
  - destruct l1 as [|y l1]; [cbn in Hl; lia|].
    cbn in H. inversion H; subst. destruct (IH l1 r1 R H2) as (p' & -> & ->); [cbn in Hl; lia|].
    exists p'. split; reflexivity.
Qed.

(* a prefix of known length is what take_N cuts off *)
Lemma take_N_app p r : take_N (blen p) (p ++ r) = (p, r, 0).
Proof.
  destruct (take_N (blen p) (p ++ r)) as [[a b] m] eqn:E.
  destruct (take_N_split _ _ _ _ _ E) as (H1 & H2 & H3).
  destruct H3 as [-> | ->].
  - destruct (app_eq_blen p a r b H1) as [-> ->]; [lia|reflexivity].
  - rewrite app_nil_r in H1. assert (Hl : blen a = blen p + blen r) by (rewrite <- H1; apply blen_app).
    assert (m = 0) by lia. subst m.
    destruct (app_eq_blen p a r [] ) as [-> ->]; [rewrite app_nil_r; exact H1|lia|reflexivity].
Qed.

(* a string shorter than the count is taken whole *)
Lemma take_N_all s n : blen s <= n -> take_N n s = (s, [], n - blen s).
Proof.
  intros Hl. destruct (take_N n s) as [[a b] m] eqn:E.
  destruct (take_N_split _ _ _ _ _ E) as (H1 & H2 & H3).
  destruct H3 as [-> | ->].
  - assert (Hb : blen s = blen a + blen b) by (rewrite H1; apply blen_app).
    assert (Hb0 : b = []) by (apply blen_zero; lia). subst b.
    rewrite app_nil_r in H1. subst a. f_equal. lia.
  - rewrite app_nil_r in H1. subst a. f_equal. lia.
Qed.

(* ====================================================================== *)
(* 2. the copy of n octets with the line limit off                         *)
(* ====================================================================== *)

Lemma too_long_b_zero cur : too_long_b 0 cur = false.
Proof. reflexivity. Qed.

Lemma cp_go_unfold limit closed raws cur n acc :
  cp_go limit closed raws cur n acc =
  if n =? 0 then (acc, None, ([], raws, cur))
  else if too_long_b limit cur then (acc, Some TTooLong, ([], raws, cur))
  else if closed then (acc, Some TClosed, ([], raws, cur))
  else match raws with
       | [] => (acc, Some TEof, ([], [], cur))
       | RFail e :: r => (acc, Some e, ([], r, cur))
       | RData c d :: r =>
           let '(tr, cur') :=
             if limit =? 0 then (false, cur) else lim_scan limit cur (c :: d) in
           if tr then (acc, Some TTooLong, ([], r, cur'))
           else let '(a, b, m) := take_N n (c :: d) in
                if m =? 0 then (acc ++ a, None, (b, r, cur'))
                else cp_go limit closed r cur' m (acc ++ a)
       end.
Proof. destruct raws; reflexivity. Qed.

(* the schedule holds the whole chunk: for EVERY segmentation of payload ++
   rest into raw reads, the copy returns exactly the payload and leaves
   exactly the rest *)
Lemma cp_go_exact raws : forall cur n acc p rest,
  blen p = n -> raws_bytes raws = p ++ rest ->
  exists b r cur',
    cp_go 0 false raws cur n acc = (acc ++ p, None, (b, r, cur')) /\
    b ++ raws_bytes r = rest /\ raws_term r = raws_term raws.
Proof.
  induction raws as [|x raws IH]; intros cur n acc p rest Hn Hs; rewrite cp_go_unfold.
  - cbn in Hs. destruct p; [|discriminate]. cbn in Hs. subst rest. rewrite blen_nil in Hn. subst n.
    cbn. exists [], [], cur. rewrite app_nil_r. repeat split.
  - destruct (n =? 0) eqn:En.
    + apply N.eqb_eq in En. rewrite En in Hn. apply blen_zero in Hn. subst p.
      exists [], (x :: raws), cur. rewrite app_nil_r. repeat split. exact Hs.
    + apply N.eqb_neq in En. rewrite too_long_b_zero.
      destruct x as [c d|e].
      2:{ cbn in Hs. destruct p; [rewrite blen_nil in Hn; lia|discriminate]. }
      change (0 =? 0) with true. cbv iota beta.
      destruct (take_N n (c :: d)) as [[a b] m] eqn:Et.
      destruct (take_N_split _ _ _ _ _ Et) as (H1 & H2 & H3).
      cbn [raws_bytes] in Hs. change (c :: d ++ raws_bytes raws) with ((c :: d) ++ raws_bytes raws) in Hs.
      rewrite H1 in Hs.
      destruct (m =? 0) eqn:Em.
      * apply N.eqb_eq in Em. subst m. rewrite <- app_assoc in Hs.
        destruct (app_eq_blen a p (b ++ raws_bytes raws) rest) as [Ha Hb]; [exact Hs|lia|]. subst p rest.
        exists b, raws, cur. repeat split.
      * apply N.eqb_neq in Em. destruct H3 as [H3|H3]; [contradiction|]. subst b.
        rewrite app_nil_r in Hs, H1.
        destruct (app_eq_shorter a p rest (raws_bytes raws) (eq_sym Hs)) as (p' & -> & Hr).
        { unfold blen in *. lia. }
        rewrite blen_app in Hn.
        destruct (IH cur m (acc ++ a) p' rest) as (b & r & cur' & Hc & Hb & Ht); [lia|exact Hr|].
        exists b, r, cur'. rewrite Hc, app_assoc. repeat split; [exact Hb|exact Ht].
Qed.

(* the schedule ends (EOF, timeout, error) inside the chunk: the copy returns
   what there was and the schedule's failure *)
Lemma cp_go_short raws : forall cur n acc,
  blen (raws_bytes raws) < n ->
  exists cur',
    cp_go 0 false raws cur n acc
    = (acc ++ raws_bytes raws, Some (raws_term raws), ([], raws_after raws, cur')).
Proof.
  induction raws as [|x raws IH]; intros cur n acc Hn; rewrite cp_go_unfold.
  - assert (En : n =? 0 = false) by (apply N.eqb_neq; lia). rewrite En. cbn. rewrite app_nil_r.
    exists cur. reflexivity.
  - assert (En : n =? 0 = false) by (apply N.eqb_neq; lia). rewrite En, too_long_b_zero.
    destruct x as [c d|e].
    2:{ cbn. rewrite app_nil_r. exists cur. reflexivity. }
    change (0 =? 0) with true. cbv iota beta.
    cbn [raws_bytes] in Hn. change (c :: d ++ raws_bytes raws) with ((c :: d) ++ raws_bytes raws) in Hn.
    rewrite blen_app in Hn.
    rewrite take_N_all by lia.
    assert (Em : n - blen (c :: d) =? 0 = false) by (apply N.eqb_neq; lia). rewrite Em.
    destruct (IH cur (n - blen (c :: d)) (acc ++ c :: d)) as (cur' & Hc); [lia|].
    exists cur'. rewrite Hc. cbn [raws_bytes raws_term raws_after]. rewrite <- app_assoc. reflexivity.
Qed.

(* in general (any limit, any state): never more than n octets, and exactly n
   when no error is reported *)
Lemma cp_go_len limit closed raws : forall cur n acc got e st,
  cp_go limit closed raws cur n acc = (got, e, st) ->
  blen got <= blen acc + n /\ (e = None -> blen got = blen acc + n).
Proof.
  induction raws as [|x raws IH]; intros cur n acc got e st H; rewrite cp_go_unfold in H.
  - destruct (n =? 0) eqn:En; [apply N.eqb_eq in En; subst n|];
      repeat match type of H with (if ?b then _ else _) = _ => destruct b end;
      inversion H; subst; split; try lia; discriminate.
  - destruct (n =? 0) eqn:En.
    { apply N.eqb_eq in En; subst n. inversion H; subst; split; lia. }
    destruct (too_long_b limit cur); [inversion H; subst; split; [lia|discriminate]|].
    destruct closed; [inversion H; subst; split; [lia|discriminate]|].
    destruct x as [c d|e0]; [|inversion H; subst; split; [lia|discriminate]].
    destruct (if limit =? 0 then (false, cur) else lim_scan limit cur (c :: d)) as [tr cur'].
    destruct tr; [inversion H; subst; split; [lia|discriminate]|].
    destruct (take_N n (c :: d)) as [[a b] m] eqn:Et.
    destruct (take_N_split _ _ _ _ _ Et) as (H1 & H2 & H3).
    destruct (m =? 0) eqn:Em.
    + apply N.eqb_eq in Em. subst m. inversion H; subst. rewrite blen_app. split; lia.
    + apply IH in H. rewrite blen_app in H. destruct H as [Ha Hb]. split; [lia|].
      intros He. specialize (Hb He). lia.
Qed.

Lemma t_copy_n_len n t got e t' :
  t_copy_n n t = (got, e, t') -> blen got <= n /\ (e = None -> blen got = n).
Proof.
  unfold t_copy_n. destruct (take_N n (t_buf t)) as [[a b] m] eqn:Et.
  destruct (take_N_split _ _ _ _ _ Et) as (H1 & H2 & H3).
  destruct (m =? 0) eqn:Em.
  - apply N.eqb_eq in Em. subst m. intros H. inversion H; subst. split; lia.
  - destruct (cp_go (t_limit t) (t_closed t) (t_raw t) (t_cur t) m a) as [[got' e'] [[b' r] cur]] eqn:Ec.
    intros H. inversion H; subst. apply cp_go_len in Ec. destruct Ec as [Ha Hb]. split; [lia|].
    intros He. specialize (Hb He). lia.
Qed.

(* ---- Transport framing (theorem 1) ---- *)

(* For EVERY transport state with the limiter off - whatever is buffered,
   whatever the schedule of future raw reads, whatever the limiter's counter -
   whose stream starts with n octets: the copy returns exactly these n octets,
   no error, and leaves exactly the rest of the stream. *)
Theorem copy_n_exact (t : transport) (n : N) (payload rest : bytes) :
  t_closed t = false -> t_limit t = 0 ->
  tstream t = payload ++ rest -> blen payload = n ->
  exists t',
    t_copy_n n t = (payload, None, t') /\
    tstream t' = rest /\ t_closed t' = false /\ t_limit t' = 0 /\ tterm t' = tterm t.
Proof.
  intros Hcl Hlim Hs Hn. unfold t_copy_n, tstream, tterm in *.
  destruct (take_N n (t_buf t)) as [[a b] m] eqn:Et.
  destruct (take_N_split _ _ _ _ _ Et) as (H1 & H2 & H3).
  rewrite H1 in Hs.
  destruct (m =? 0) eqn:Em.
  - apply N.eqb_eq in Em. subst m. rewrite <- app_assoc in Hs.
    destruct (app_eq_blen a payload (b ++ raws_bytes (t_raw t)) rest) as [Ha Hb]; [exact Hs|lia|].
    subst payload rest. eexists. split; [reflexivity|]. cbn. repeat split; assumption.
  - apply N.eqb_neq in Em. destruct H3 as [H3|H3]; [contradiction|]. subst b.
    rewrite app_nil_r in Hs, H1.
    destruct (app_eq_shorter a payload rest (raws_bytes (t_raw t)) (eq_sym Hs)) as (p' & -> & Hr).
    { unfold blen in *. lia. }
    rewrite blen_app in Hn. rewrite Hlim, Hcl.
    destruct (cp_go_exact (t_raw t) (t_cur t) m a p' rest) as (b & r & cur' & Hc & Hb & Ht); [lia|exact Hr|].
    rewrite Hc. eexists. split; [reflexivity|]. cbn. repeat split; assumption.
Qed.

(* The stream ends inside the chunk: the copy returns the octets there were
   and the failure that ended the schedule (EOF, timeout, network error);
   nothing is left buffered and the schedule continues behind that failure
   (so when the failure is the end of the script the stream is empty). *)
Theorem copy_n_short (t : transport) (n : N) :
  t_closed t = false -> t_limit t = 0 -> blen (tstream t) < n ->
  exists t',
    t_copy_n n t = (tstream t, Some (tterm t), t') /\
    t_buf t' = [] /\ t_raw t' = raws_after (t_raw t) /\ t_closed t' = false /\ t_limit t' = 0.
Proof.
  intros Hcl Hlim Hn. unfold t_copy_n, tstream, tterm in *. rewrite blen_app in Hn.
  rewrite take_N_all by lia.
  assert (Em : n - blen (t_buf t) =? 0 = false) by (apply N.eqb_neq; lia). rewrite Em, Hlim, Hcl.
  destruct (cp_go_short (t_raw t) (t_cur t) (n - blen (t_buf t)) (t_buf t)) as (cur' & Hc); [lia|].
  rewrite Hc. eexists. split; [reflexivity|]. cbn. repeat split.
Qed.

Corollary copy_n_short_eof (t : transport) (n : N) :
  t_closed t = false -> t_limit t = 0 -> blen (tstream t) < n -> raws_after (t_raw t) = [] ->
  exists t', t_copy_n n t = (tstream t, Some (tterm t), t') /\ tstream t' = [].
Proof.
  intros Hcl Hlim Hn Ha. destruct (copy_n_short t n Hcl Hlim Hn) as (t' & Hc & Hb & Hr & _).
  exists t'. split; [exact Hc|]. unfold tstream. rewrite Hb, Hr, Ha. reflexivity.
Qed.

(* segmentation independence: two transport states (different buffered part,
   different raw reads, different limiter counters) carrying the same stream
   yield the same chunk and the same remaining stream *)
Corollary copy_n_segmentation_independent (t1 t2 : transport) n payload rest :
  t_closed t1 = false -> t_limit t1 = 0 -> t_closed t2 = false -> t_limit t2 = 0 ->
  tstream t1 = payload ++ rest -> tstream t2 = tstream t1 -> blen payload = n ->
  let '(got1, e1, t1') := t_copy_n n t1 in
  let '(got2, e2, t2') := t_copy_n n t2 in
  got1 = payload /\ got2 = payload /\ e1 = None /\ e2 = None /\
  tstream t1' = rest /\ tstream t2' = rest.
Proof.
  intros Hc1 Hl1 Hc2 Hl2 Hs1 Hs2 Hn. rewrite Hs1 in Hs2.
  destruct (copy_n_exact t1 n payload rest Hc1 Hl1 Hs1 Hn) as (t1' & E1 & R1 & _).
  destruct (copy_n_exact t2 n payload rest Hc2 Hl2 Hs2 Hn) as (t2' & E2 & R2 & _).
  rewrite E1, E2. repeat split; assumption.
Qed.

(* ====================================================================== *)
(* 3. discardChunk                                                         *)
(* ====================================================================== *)

Lemma tstream_set_limit t l : tstream (set_limit t l) = tstream t.
Proof. reflexivity. Qed.
Lemma tterm_set_limit t l : tterm (set_limit t l) = tterm t.
Proof. reflexivity. Qed.

(* the declared octets are consumed - whatever they are, however they are
   segmented - and the line limit is switched back on *)
Theorem discard_chunk_resume (cfg : config) (c : conn) (n : N) (payload rest : bytes) :
  t_closed (c_t c) = false ->
  tstream (c_t c) = payload ++ rest -> blen payload = n ->
  exists t',
    discard_chunk cfg c n = (upd_t c t', []) /\
    tstream t' = rest /\ t_limit t' = cf_max_line cfg /\ t_closed t' = false /\
    tterm t' = tterm (c_t c).
Proof.
  intros Hcl Hs Hn. unfold discard_chunk.
  destruct (copy_n_exact (set_limit (c_t c) 0) n payload rest) as (t1 & Hc & Hr & Hcl1 & _ & Ht);
    [exact Hcl|reflexivity|exact Hs|exact Hn|].
  rewrite Hc. eexists. split; [reflexivity|]. repeat split; assumption.
Qed.

(* the stream ends (or a read fails) before the declared octets have been
   read: what could be read is consumed, and the connection is CLOSED - the
   rest of the chunk, should it arrive later, is not run as commands *)
Theorem discard_chunk_short (cfg : config) (c : conn) (n : N) :
  t_closed (c_t c) = false -> blen (tstream (c_t c)) < n ->
  exists t',
    discard_chunk cfg c n = do_close (upd_t c t') /\
    t_buf t' = [] /\ t_raw t' = raws_after (t_raw (c_t c)) /\ t_limit t' = cf_max_line cfg.
Proof.
  intros Hcl Hn. unfold discard_chunk.
  destruct (copy_n_short (set_limit (c_t c) 0) n) as (t1 & Hc & Hb & Hr & _); [exact Hcl|reflexivity|exact Hn|].
  rewrite Hc. eexists. split; [reflexivity|]. repeat split; assumption.
Qed.

(* in general: discardChunk either skips the declared octets and adds no event,
   or closes the connection *)
Definition discard_c (cfg : config) (c : conn) (size : N) : conn := fst (discard_chunk cfg c size).
Definition discard_ev (cfg : config) (c : conn) (size : N) : list event := snd (discard_chunk cfg c size).

Lemma discard_pair cfg c size : discard_chunk cfg c size = (discard_c cfg c size, discard_ev cfg c size).
Proof. unfold discard_c, discard_ev. destruct (discard_chunk cfg c size); reflexivity. Qed.

Lemma discard_cases cfg c size :
  (discard_short c size = false /\
   discard_c cfg c size = upd_t c (discard_t cfg c size) /\ discard_ev cfg c size = [])
  \/ (discard_short c size = true /\
      discard_c cfg c size = close_c (upd_t c (discard_t cfg c size)) /\
      discard_ev cfg c size = close_ev c).
Proof.
  unfold discard_c, discard_ev. rewrite discard_chunk_eq.
  destruct (discard_short c size); [right|left]; cbn [fst snd]; rewrite ?close_ev_upd_t; auto.
Qed.

(* ====================================================================== *)
(* 4. handle_bdat in pieces                                                *)
(* ====================================================================== *)

Ltac cs :=
  cbn [c_t c_phases c_be c_helo c_session c_errs c_binarymime c_from c_rcpts c_did_auth c_closed
       c_tls c_bdat c_received upd_t upd_be upd_helo upd_session upd_errs upd_binarymime upd_from
       upd_rcpts upd_did_auth upd_bdat upd_received fst snd] in *.

(* the optional second argument *)
Definition bdat_last_ok (more : list bytes) : option bool :=
  match more with
  | [] => Some false
  | a1 :: _ => if equal_fold a1 (bs "LAST") then Some true else None
  end.

(* the size check *)
Definition bdat_over (cfg : config) (c : conn) (size : N) : bool :=
  negb (cf_max_bytes cfg =? 0)%Z && (cf_max_bytes cfg <? c_received c + Z.of_N size)%Z.

(* the transfer the chunk goes to: the running one, or a new one *)
Definition bdat_start (cfg : config) (c : conn) : bdat * list event * conn :=
  match c_bdat c with
  | Some b => (b, [], c)
  | None =>
      let '(p, c1) := pop_data c in
      let status_panic :=
        cf_lmtp cfg && cf_lmtp_session cfg
        && snd (run_statuses (dp_status p) (mk_collector (c_rcpts c1))) in
      let '(b, ev) := bd_new p (c_rcpts c1) status_panic in
      (b, ev, c1)
  end.

(* what handle_bdat does once the copy from the transport has returned
   (chunk, cerr, t1) - verbatim *)
Definition bdat_fed (cfg : config) (c : conn) (size : N) (last : bool)
           (chunk : bytes) (cerr : option terr) (t1 : transport) : hres :=
  let '(b0, ev0, c0) := bdat_start cfg c in
  let '(b1, ev1, werr) := bd_feed b0 chunk in
  let err : option (berr * rerr) :=
    match werr with
    | Some e => Some (e, RDataReset)
    | None =>
        match cerr with
        | Some te => Some (berr_of_rerr (rerr_of_copy te), rerr_of_copy te)
        | None => None
        end
    end in
  match err with
  | Some (e, pe) =>
      let '(_, derr, t1) :=
        match werr, cerr with
        | None, Some _ => t_copy_n (size - blen chunk) t1
        | _, _ => ([], cerr, t1)
        end in
      let short := match derr with Some _ => true | None => false end in
      let c1 := upd_bdat (upd_t c0 t1) (Some b1) in
      let '(c2, evr, closeit) :=
        if last && cf_lmtp cfg then
          let '(b2, ev2) := bd_end b1 pe in
          let '(rs, _) := bdat_lmtp_replies cfg b2 e in
          (upd_bdat c1 (Some b2), ev2 ++ rs,
           (match werr with Some _ => bd_panics b1 | None => false end) || short)
        else
          let '(code, ec, msg) := data_error_to_status e in
          (c1, [reply code ec msg], (match werr with Some _ => bd_panics b1 | None => false end) || short) in
      let '(c3, ev3) := if closeit then do_close c2 else (c2, []) in
      let '(c4, ev4) := do_reset c3 in
      (upd_t c4 (set_limit (c_t c4) (cf_max_line cfg)), ev0 ++ ev1 ++ evr ++ ev3 ++ ev4)
  | None =>
      let c1 := upd_received (upd_bdat (upd_t c0 (set_limit t1 (cf_max_line cfg))) (Some b1))
                             (c_received c0 + Z.of_N size)%Z in
      if negb last then (c1, ev0 ++ ev1 ++ [reply 250 (2, 0, 0)%Z (bs "Continue")])
      else
        let '(b2, ev2) := bd_end b1 REOF in
        let ret := match bd_done b2 with Some v => v | None => BNil end in
        let c2 := upd_bdat c1 (Some b2) in
        if cf_lmtp cfg then
          let '(rs, panicked) := bdat_lmtp_replies cfg b2 ret in
          if panicked then
            let '(c3, ev3) := do_close c2 in (c3, ev0 ++ ev1 ++ ev2 ++ rs ++ ev3)
          else
            let '(c3, ev3) := do_reset c2 in (c3, ev0 ++ ev1 ++ ev2 ++ rs ++ ev3)
        else
          let '(code, ec, msg) := data_error_to_status ret in
          if bd_panics b2 then
            let '(c3, ev3) := do_close c2 in (c3, ev0 ++ ev1 ++ ev2 ++ [reply code ec msg] ++ ev3)
          else
            let '(c3, ev3) := do_reset c2 in (c3, ev0 ++ ev1 ++ ev2 ++ [reply code ec msg] ++ ev3)
  end.

Lemma bdat_start_t cfg c : c_t (snd (bdat_start cfg c)) = c_t c.
Proof.
  unfold bdat_start. destruct (c_bdat c); [reflexivity|].
  unfold pop_data. destruct (pop dp_default (be_data (c_be c))) as [p rest].
  destruct (bd_new _ _ _). reflexivity.
Qed.

(* the verdict on a BDAT command line, in the order the code decides *)
Inductive bdat_verdict :=
| BvSyntax                         (* no size known: 501, nothing consumed *)
| BvNoEnvelope (size : N)          (* 502, chunk discarded *)
| BvBadLast (size : N)             (* 501, chunk discarded *)
| BvOverLimit (size : N)           (* 552, chunk discarded, transaction reset *)
| BvNilSession                     (* unreachable: no session but an envelope *)
| BvAccept (size : N) (last : bool).

Definition bdat_classify (cfg : config) (c : conn) (arg : bytes) : bdat_verdict :=
  match fields arg with
  | [] => BvSyntax
  | _ :: _ :: _ :: _ => BvSyntax
  | a0 :: more =>
      match parse_uint 32 a0 with
      | PSyntax | PRange => BvSyntax
      | POk size =>
          if negb (c_from c) || match c_rcpts c with [] => true | _ => false end then BvNoEnvelope size
          else match bdat_last_ok more with
               | None => BvBadLast size
               | Some last =>
                   if bdat_over cfg c size then BvOverLimit size
                   else if negb (c_session c) && match c_bdat c with None => true | Some _ => false end
                        then BvNilSession
                        else BvAccept size last
               end
      end
  end.

(* handle_bdat, branch by branch.  A refused chunk: the reply, then what
   discardChunk does (nothing more, or Close: [discard_cases]). *)
Theorem handle_bdat_cases (cfg : config) (c : conn) (arg : bytes) :
  match bdat_classify cfg c arg with
  | BvSyntax => exists w, handle_bdat cfg c arg = (c, [EWire w])
  | BvNoEnvelope size =>
      handle_bdat cfg c arg
      = (discard_c cfg c size,
         reply 502 (5, 5, 1)%Z (bs "Missing RCPT TO command.") :: discard_ev cfg c size)
  | BvBadLast size =>
      handle_bdat cfg c arg
      = (discard_c cfg c size,
         reply 501 (5, 5, 4)%Z (bs "Unknown BDAT argument") :: discard_ev cfg c size)
  | BvOverLimit size =>
      handle_bdat cfg c arg
      = (reset_c (discard_c cfg c size),
         [reply 552 (5, 3, 4)%Z (bs "Max message size exceeded")]
         ++ discard_ev cfg c size ++ reset_ev (discard_c cfg c size))
  | BvNilSession => handle_bdat cfg c arg = (c, [EPanic])
  | BvAccept size last =>
      handle_bdat cfg c arg
      = let '(chunk, cerr, t1) := t_copy_n size (set_limit (c_t c) 0) in
        bdat_fed cfg c size last chunk cerr t1
  end.
Proof.
  unfold bdat_classify, handle_bdat.
  destruct (fields arg) as [|a0 more]; [eexists; reflexivity|].
  destruct (parse_uint 32 a0) as [size| |] eqn:Ep.
  2,3: destruct more as [|a1 [|a2 more]]; eexists; reflexivity.
  rewrite (discard_pair cfg c size).
  destruct (negb (c_from c) || match c_rcpts c with [] => true | _ :: _ => false end) eqn:Eenv.
  { destruct more as [|a1 [|a2 more]]; [reflexivity|reflexivity|eexists; reflexivity]. }
  unfold bdat_last_ok.
  destruct more as [|a1 [|a2 more]]; [| |eexists; reflexivity].
  - (* no LAST *)
    fold (bdat_over cfg c size). destruct (bdat_over cfg c size).
    + rewrite do_reset_eq. reflexivity.
    + destruct (negb (c_session c) && match c_bdat c with None => true | Some _ => false end); [reflexivity|].
      fold (bdat_start cfg c). unfold bdat_fed.
      pose proof (bdat_start_t cfg c) as Ht.
      destruct (bdat_start cfg c) as [[b0 ev0] c0]. cbn [snd] in Ht. rewrite Ht.
      destruct (t_copy_n size (set_limit (c_t c) 0)) as [[chunk cerr] t1]. reflexivity.
  - destruct (equal_fold a1 (bs "LAST")); [|reflexivity].
    fold (bdat_over cfg c size). destruct (bdat_over cfg c size).
    + rewrite do_reset_eq. reflexivity.
    + destruct (negb (c_session c) && match c_bdat c with None => true | Some _ => false end); [reflexivity|].
      fold (bdat_start cfg c). unfold bdat_fed.
      pose proof (bdat_start_t cfg c) as Ht.
      destruct (bdat_start cfg c) as [[b0 ev0] c0]. cbn [snd] in Ht. rewrite Ht.
      destruct (t_copy_n size (set_limit (c_t c) 0)) as [[chunk cerr] t1]. reflexivity.
Qed.

Lemma bdat_start_c cfg c : exists be0, snd (bdat_start cfg c) = upd_be c be0.
Proof.
  unfold bdat_start. destruct (c_bdat c).
  - exists (c_be c). destruct c; reflexivity.
  - unfold pop_data. destruct (pop dp_default (be_data (c_be c))) as [p rest].
    destruct (bd_new _ _ _). eexists. reflexivity.
Qed.

(* whatever the copy returned and whatever the backend did: the handler
   leaves the transport where the copy left it - or, after a read error with
   the backend still reading, where the discard of the rest of the declared
   size left it - with the line limit on *)
Lemma bdat_fed_transport cfg c size last chunk cerr t1 :
  let c' := fst (bdat_fed cfg c size last chunk cerr t1) in
  exists tf,
    (tf = t1 \/ (cerr <> None /\ tf = snd (t_copy_n (size - blen chunk) t1))) /\
    t_buf (c_t c') = t_buf tf /\ t_raw (c_t c') = t_raw tf /\ t_cur (c_t c') = t_cur tf /\
    t_limit (c_t c') = cf_max_line cfg /\
    ((c_closed c' = c_closed c /\ t_closed (c_t c') = t_closed tf) \/
     (c_closed c' = true /\ t_closed (c_t c') = true)).
Proof.
  unfold bdat_fed. destruct (bdat_start_c cfg c) as [be0 Hc0].
  destruct (bdat_start cfg c) as [[b0 ev0] c0]. cbn [snd] in Hc0. subst c0.
  destruct (bd_feed b0 chunk) as [[b1 ev1] werr].
  destruct c as [t ph be h se er bm fr rc da cl tl bd rv]. cs.
  destruct werr as [e|]; [|destruct cerr as [te|]].
  1: (cbv beta iota zeta; exists t1; split; [left; reflexivity|]).
  2: (cbv beta iota zeta; destruct (t_copy_n (size - blen chunk) t1) as [[dg de] t1d] eqn:Edisc;
      exists t1d; split; [right; split; [discriminate|reflexivity]|]; cbv beta iota zeta).
  1,2: destruct (last && cf_lmtp cfg);
       [ match goal with |- context [bd_end ?b ?pe] => destruct (bd_end b pe) as [b2 ev2] end;
         match goal with |- context [bdat_lmtp_replies ?a ?b ?e] => destruct (bdat_lmtp_replies a b e) as [rs pk] end
       | match goal with |- context [data_error_to_status ?e] => destruct (data_error_to_status e) as [[code ec] msg] end ];
       cbv beta iota zeta;
       match goal with |- context [if ?b then do_close _ else _] => destruct b end;
       rewrite ?do_close_eq; cbv beta iota; rewrite ?do_reset_eq; cbn; auto 10.
  exists t1. split; [left; reflexivity|].
  destruct last; cbn [negb].
  2:{ cbn. auto 10. }
  destruct (bd_end b1 REOF) as [b2 ev2].
  destruct (cf_lmtp cfg).
  - match goal with |- context [bdat_lmtp_replies ?a ?b ?e] => destruct (bdat_lmtp_replies a b e) as [rs pk] end.
    destruct pk; rewrite ?do_close_eq, ?do_reset_eq; cbn; auto 10.
  - match goal with |- context [data_error_to_status ?e] => destruct (data_error_to_status e) as [[code ec] msg] end.
    destruct (bd_panics b2); rewrite ?do_close_eq, ?do_reset_eq; cbn; auto 10.
Qed.

(* ====================================================================== *)
(* 5. the command stream resumes behind the declared size (theorem 2)      *)
(* ====================================================================== *)

(* the argument carries a size: one or two fields, the first a decimal < 2^32 *)
Definition bdat_size_known (arg : bytes) (n : N) : Prop :=
  exists a0 more, fields arg = a0 :: more /\ (List.length more <= 1)%nat /\ parse_uint 32 a0 = POk n.

Lemma classify_size cfg c arg n :
  bdat_size_known arg n ->
  match bdat_classify cfg c arg with
  | BvSyntax => False
  | BvNoEnvelope s | BvBadLast s | BvOverLimit s | BvAccept s _ => s = n
  | BvNilSession => c_session c = false /\ c_from c = true /\ c_bdat c = None
  end.
Proof.
  intros (a0 & more & Hf & Hl & Hp). unfold bdat_classify. rewrite Hf, Hp.
  destruct more as [|a1 [|a2 more]]; [| |cbn in Hl; lia].
  all: destruct (c_from c); cbn [negb orb]; [|reflexivity].
  all: destruct (c_rcpts c); [reflexivity|].
  all: destruct (bdat_last_ok _); [|reflexivity].
  all: destruct (bdat_over cfg c n); [reflexivity|].
  all: destruct (c_session c); cbn [negb andb]; [reflexivity|].
  all: destruct (c_bdat c); [reflexivity|auto].
Qed.

Lemma classify_syntax cfg c arg :
  bdat_classify cfg c arg = BvSyntax <-> ~ exists n, bdat_size_known arg n.
Proof.
  split.
  - intros H [n Hn]. pose proof (classify_size cfg c arg n Hn) as Hc. rewrite H in Hc. exact Hc.
  - intros H. unfold bdat_classify.
    destruct (fields arg) as [|a0 more] eqn:Hf; [reflexivity|].
    destruct (parse_uint 32 a0) as [size| |] eqn:Hp.
    2,3: destruct more as [|a1 [|a2 more]]; reflexivity.
    destruct more as [|a1 [|a2 more]]; [| |reflexivity].
    all: exfalso; apply H; exists size; eexists a0, _; split; [exact Hf|]; split; [cbn; lia|exact Hp].
Qed.

(* size unknown (no argument, more than two, not a decimal below 2^32):
   one 501 reply, the state - in particular the transport - is untouched:
   nothing can be skipped *)
Theorem bdat_syntax_unchanged cfg c arg :
  (~ exists n, bdat_size_known arg n) ->
  exists w, handle_bdat cfg c arg = (c, [EWire w]).
Proof.
  intros H. apply (classify_syntax cfg c) in H.
  pose proof (handle_bdat_cases cfg c arg) as Hc. rewrite H in Hc. exact Hc.
Qed.

(* The size is known and the stream holds the declared octets: in EVERY
   branch - accepted (LAST or not, delivered, refused by the backend, backend
   gone, backend panicked), refused 502 (no envelope), refused 501 (bad LAST
   token), refused 552 (over the limit) - the handler leaves the transport
   exactly behind the declared octets, with the line limit switched back on;
   this holds for every buffered/raw-read segmentation of the stream and for
   every payload.  Branches that close the connection are included (the
   stream position is the same; c_closed tells the loop to stop). *)
Theorem bdat_resume (cfg : config) (c : conn) (arg a0 : bytes) (more : list bytes)
        (n : N) (payload rest : bytes) :
  t_closed (c_t c) = false ->
  (c_from c = true -> c_session c = true) ->
  fields arg = a0 :: more -> (List.length more <= 1)%nat -> parse_uint 32 a0 = POk n ->
  tstream (c_t c) = payload ++ rest -> blen payload = n ->
  let '(c', ev) := handle_bdat cfg c arg in
  tstream (c_t c') = rest /\ t_limit (c_t c') = cf_max_line cfg /\
  tterm (c_t c') = tterm (c_t c) /\
  ((c_closed c' = c_closed c /\ t_closed (c_t c') = false) \/
   (c_closed c' = true /\ t_closed (c_t c') = true)).
Proof.
  intros Hcl Hse Hf Hl Hp Hs Hn.
  assert (Hk : bdat_size_known arg n) by (exists a0, more; auto).
  pose proof (classify_size cfg c arg n Hk) as Hsz.
  pose proof (handle_bdat_cases cfg c arg) as Hc.
  destruct (discard_chunk_resume cfg c n payload rest Hcl Hs Hn) as (td & Hd & Hd1 & Hd2 & Hd3 & Hd4).
  destruct (bdat_classify cfg c arg) as [|s|s|s| |s last]; try subst s.
  - contradiction.
  - rewrite Hc. unfold discard_c, discard_ev. rewrite Hd. cs. auto 10.
  - rewrite Hc. unfold discard_c, discard_ev. rewrite Hd. cs. auto 10.
  - rewrite Hc. unfold discard_c, discard_ev. rewrite Hd. destruct c; cbn. auto 10.
  - destruct Hsz as (H1 & H2 & _). rewrite (Hse H2) in H1. discriminate.
  - rewrite Hc.
    destruct (copy_n_exact (set_limit (c_t c) 0) n payload rest) as (t1 & Hcp & Hr & Hcl1 & _ & Ht);
      [exact Hcl|reflexivity|exact Hs|exact Hn|].
    rewrite Hcp.
    pose proof (bdat_fed_transport cfg c n last payload None t1) as Hft.
    destruct (bdat_fed cfg c n last payload None t1) as [c' ev]. cbn [fst] in Hft. cbv zeta in Hft.
    destruct Hft as (tf & Htf & Hb & Hr' & _ & Hlim & Hclosed).
    destruct Htf as [-> | [Hx _]]; [|exfalso; apply Hx; reflexivity].
    unfold tstream, tterm in *. rewrite Hb, Hr'. split; [exact Hr|]. split; [exact Hlim|].
    split; [exact Ht|]. rewrite Hcl1 in Hclosed. exact Hclosed.
Qed.

(* the loop invariant of ConnProofs gives the session hypothesis *)
Lemma Inv_session c : Inv c -> c_closed c = false -> c_from c = true -> c_session c = true.
Proof.
  intros (H1 & _) Hc Hf. destruct (c_session c) eqn:E; [reflexivity|].
  destruct (H1 Hc eq_refl) as (_ & H & _). congruence.
Qed.

(* the refusals: the reply, then discardChunk; no octet of the chunk reaches
   the backend or the command parser.  When the stream holds the declared
   octets the reply is the only event ([bdat_refusal_complete]); when it does
   not, the connection is closed ([bdat_refusal_short]) *)
Theorem bdat_refused_no_envelope cfg c arg a0 more n :
  fields arg = a0 :: more -> (List.length more <= 1)%nat -> parse_uint 32 a0 = POk n ->
  c_from c = false \/ c_rcpts c = [] ->
  handle_bdat cfg c arg
  = (discard_c cfg c n, reply 502 (5, 5, 1)%Z (bs "Missing RCPT TO command.") :: discard_ev cfg c n).
Proof.
  intros Hf Hl Hp He. pose proof (handle_bdat_cases cfg c arg) as Hc.
  unfold bdat_classify in Hc. rewrite Hf, Hp in Hc.
  assert (Henv : negb (c_from c) || match c_rcpts c with [] => true | _ :: _ => false end = true).
  { destruct He as [-> | ->]; [reflexivity|apply orb_true_r]. }
  rewrite Henv in Hc. destruct more as [|a1 [|a2 more]]; [exact Hc|exact Hc|cbn in Hl; lia].
Qed.

Theorem bdat_refused_bad_last cfg c arg a0 a1 n :
  fields arg = [a0; a1] -> parse_uint 32 a0 = POk n ->
  c_from c = true -> c_rcpts c <> [] -> equal_fold a1 (bs "LAST") = false ->
  handle_bdat cfg c arg
  = (discard_c cfg c n, reply 501 (5, 5, 4)%Z (bs "Unknown BDAT argument") :: discard_ev cfg c n).
Proof.
  intros Hf Hp Hfr Hrc Hl. pose proof (handle_bdat_cases cfg c arg) as Hc.
  unfold bdat_classify in Hc. rewrite Hf, Hp, Hfr in Hc. cbn [negb orb bdat_last_ok] in Hc.
  destruct (c_rcpts c); [congruence|]. rewrite Hl in Hc. exact Hc.
Qed.

Theorem bdat_refused_over_limit cfg c arg a0 more n last :
  fields arg = a0 :: more -> (List.length more <= 1)%nat -> parse_uint 32 a0 = POk n ->
  c_from c = true -> c_rcpts c <> [] -> bdat_last_ok more = Some last ->
  cf_max_bytes cfg <> 0%Z -> (cf_max_bytes cfg < c_received c + Z.of_N n)%Z ->
  handle_bdat cfg c arg
  = (reset_c (discard_c cfg c n),
     [reply 552 (5, 3, 4)%Z (bs "Max message size exceeded")]
     ++ discard_ev cfg c n ++ reset_ev (discard_c cfg c n)).
Proof.
  intros Hf Hl Hp Hfr Hrc Hlast Hm Hover. pose proof (handle_bdat_cases cfg c arg) as Hc.
  unfold bdat_classify in Hc. rewrite Hf, Hp, Hfr, Hlast in Hc. cbn [negb orb] in Hc.
  destruct (c_rcpts c); [congruence|].
  assert (Ho : bdat_over cfg c n = true).
  { unfold bdat_over. apply andb_true_iff. split.
    - apply negb_true_iff. apply Z.eqb_neq. exact Hm.
    - apply Z.ltb_lt. exact Hover. }
  rewrite Ho in Hc. destruct more as [|a1 [|a2 more]]; [exact Hc|exact Hc|cbn in Hl; lia].
Qed.

(* the stream holds the declared octets: they are skipped, no event is added *)
Theorem bdat_refusal_complete cfg c n payload rest :
  t_closed (c_t c) = false -> tstream (c_t c) = payload ++ rest -> blen payload = n ->
  exists t',
    discard_c cfg c n = upd_t c t' /\ discard_ev cfg c n = [] /\
    tstream t' = rest /\ t_limit t' = cf_max_line cfg /\ t_closed t' = false /\
    tterm t' = tterm (c_t c).
Proof.
  intros Hcl Hs Hn. destruct (discard_chunk_resume cfg c n payload rest Hcl Hs Hn) as (t' & Hd & H).
  exists t'. unfold discard_c, discard_ev. rewrite Hd. auto.
Qed.

(* the stream ends, or a read fails, inside the declared octets: the
   connection is closed (a running delivery is aborted, the session logged
   out), so whatever arrives later is not run as commands *)
Theorem bdat_refusal_short cfg c n :
  t_closed (c_t c) = false -> blen (tstream (c_t c)) < n ->
  c_closed (discard_c cfg c n) = true /\ t_closed (c_t (discard_c cfg c n)) = true /\
  c_session (discard_c cfg c n) = false /\ c_bdat (discard_c cfg c n) = None /\
  discard_ev cfg c n = close_ev c.
Proof.
  intros Hcl Hn. destruct (discard_chunk_short cfg c n Hcl Hn) as (t' & Hd & _).
  unfold discard_c, discard_ev. rewrite Hd, do_close_eq. cbn [fst snd].
  rewrite close_ev_upd_t. destruct c; cbn. auto.
Qed.

(* ====================================================================== *)
(* 6. the pipe: what the backend's reader yields (theorem 3, first part)   *)
(* ====================================================================== *)

(* io.Copy of successive chunks into the pipe; the write errors are recorded *)
Fixpoint bd_feed_all (b : bdat) (chunks : list bytes) : bdat * list event * list (option berr) :=
  match chunks with
  | [] => (b, [], [])
  | p :: r =>
      let '(b1, ev1, w) := bd_feed b p in
      let '(b2, ev2, ws) := bd_feed_all b1 r in
      (b2, ev1 ++ ev2, w :: ws)
  end.

(* a whole chunked transfer seen from the pipe: start of the delivery, the
   chunks, and the end of the write side - Close() after LAST ([REOF]) or
   CloseWithError (ErrDataReset on RSET/QUIT/EHLO/connection end/over-limit
   chunk, or the copy error of a failed chunk) *)
Definition pipe_run (p : data_plan) (rcpts : list bytes) (sp : bool) (chunks : list bytes) (term : rerr)
  : list event * list (option berr) :=
  let '(b0, ev0) := bd_new p rcpts sp in
  let '(b1, ev1, ws) := bd_feed_all b0 chunks in
  let '(b2, ev2) := bd_end b1 term in
  (ev0 ++ ev1 ++ ev2, ws).

Lemma feed_read_all b chunk :
  dp_stop (bd_plan b) = None -> bd_done b = None ->
  bd_feed b chunk = (mkBD (bd_plan b) (bd_got b ++ chunk) None (bd_rcpts b) (bd_panics b), [], None).
Proof.
  intros Hs Hd. unfold bd_feed. destruct chunk as [|x chunk].
  - rewrite app_nil_r. destruct b; cbn in *. subst. reflexivity.
  - rewrite Hd, Hs. reflexivity.
Qed.

Lemma feed_all_read_all chunks : forall b,
  dp_stop (bd_plan b) = None -> bd_done b = None ->
  bd_feed_all b chunks
  = (mkBD (bd_plan b) (bd_got b ++ List.concat chunks) None (bd_rcpts b) (bd_panics b), [],
     map (fun _ => None) chunks).
Proof.
  induction chunks as [|p r IH]; intros b Hs Hd; cbn [bd_feed_all List.concat map].
  - rewrite app_nil_r. destruct b; cbn in *. subst. reflexivity.
  - rewrite feed_read_all by assumption. rewrite IH by (cbn; first [assumption|reflexivity]). cbn. rewrite <- app_assoc. reflexivity.
Qed.

(* A backend that reads until its reader ends: for EVERY division into
   chunks (any number, any sizes including zero) and every payload the
   backend is called once and its reader yields exactly the concatenation of
   the chunks - no octet changed, removed or added - followed by the
   terminal condition of the pipe; no copy reports a write error. *)
Theorem pipe_read_all p rcpts sp chunks term :
  dp_stop p = None ->
  pipe_run p rcpts sp chunks term
  = ([EBdatStart; EDelivery (List.concat chunks) (Some term) (plan_ret p (Some term)) (dp_panic p || sp)],
     map (fun _ => None) chunks).
Proof.
  intros Hs. unfold pipe_run, bd_new. rewrite Hs.
  rewrite feed_all_read_all by (cbn; first [assumption|reflexivity]). cbn. reflexivity.
Qed.

(* end-of-file after LAST: the backend's own verdict is what it returns *)
Corollary pipe_read_all_eof p rcpts sp chunks :
  dp_stop p = None ->
  fst (pipe_run p rcpts sp chunks REOF)
  = [EBdatStart; EDelivery (List.concat chunks) (Some REOF) (dp_ret p) (dp_panic p || sp)].
Proof. intros Hs. rewrite pipe_read_all by exact Hs. reflexivity. Qed.

(* C07, BDAT half at the pipe: a transfer that ends in any other way than
   Close() after a LAST chunk never shows end-of-file to the backend *)
Corollary pipe_abort_never_eof p rcpts sp chunks term got t r pn :
  term <> REOF ->
  In (EDelivery got t r pn) (fst (pipe_run p rcpts sp chunks term)) -> t <> Some REOF.
Proof.
  intros Ht Hin. unfold pipe_run in Hin.
  assert (Hfin : forall b tm g t0 r0 p0, In (EDelivery g t0 r0 p0) (snd (bd_finish b tm)) -> t0 = tm).
  { intros b tm g t0 r0 p0 [H|[]]. inversion H. reflexivity. }
  assert (Hfeed : forall b ch g t0 r0 p0, In (EDelivery g t0 r0 p0) (snd (fst (bd_feed b ch))) -> t0 = None).
  { intros b ch g t0 r0 p0. unfold bd_feed. destruct ch as [|x ch]; [intros []|].
    destruct (bd_done b); [intros []|]. destruct (dp_stop (bd_plan b)) as [k|]; [|intros []].
    destruct (take_N _ _) as [[a ?] ?]. destruct (_ <? _); [intros []|].
    match goal with |- context [bd_finish ?b ?tm] =>
      pose proof (Hfin b tm g t0 r0 p0) as Hf; destruct (bd_finish b tm) as [b2 ev] end.
    cbn [snd] in Hf. destruct (_ =? _); cbn [fst snd]; exact Hf. }
  assert (Hall : forall chs b g t0 r0 p0, In (EDelivery g t0 r0 p0) (snd (fst (bd_feed_all b chs))) -> t0 = None).
  { induction chs as [|ch chs IH]; intros b g t0 r0 p0; cbn [bd_feed_all]; [intros []|].
    pose proof (Hfeed b ch g t0 r0 p0) as H1.
    destruct (bd_feed b ch) as [[b1 ev1] w]. cbn [fst snd] in H1.
    pose proof (IH b1 g t0 r0 p0) as H2.
    destruct (bd_feed_all b1 chs) as [[b2 ev2] ws]. cbn [fst snd] in *.
    intros H. apply in_app_or in H. destruct H; auto. }
  assert (Hnew : In (EDelivery got t r pn) (snd (bd_new p rcpts sp)) -> t = None).
  { unfold bd_new. destruct (dp_stop p) as [[|k]|]; cbn; try (intros [H|[]]; discriminate).
    intros [H|[H|[]]]; [discriminate|inversion H; reflexivity]. }
  destruct (bd_new p rcpts sp) as [b0 ev0]. cbn [snd] in Hnew.
  pose proof (Hall chunks b0 got t r pn) as Ha.
  destruct (bd_feed_all b0 chunks) as [[b1 ev1] ws]. cbn [fst snd] in Ha.
  assert (Hend : In (EDelivery got t r pn) (snd (bd_end b1 term)) -> t = Some term).
  { unfold bd_end. destruct (bd_done b1); [intros []|]. apply Hfin. }
  destruct (bd_end b1 term) as [b2 ev2]. cbn [fst snd] in *.
  apply in_app_or in Hin. destruct Hin as [H|H]; [rewrite (Hnew H); discriminate|].
  apply in_app_or in H. destruct H as [H|H]; [rewrite (Ha H); discriminate|].
  rewrite (Hend H). congruence.
Qed.

(* ---- a backend that stops reading after k octets ---- *)

Lemma feed_done b chunk v : bd_done b = Some v -> fst (bd_feed b chunk) = (b, []).
Proof. intros Hd. unfold bd_feed. destruct chunk; [reflexivity|]. rewrite Hd. reflexivity. Qed.

Lemma feed_all_done chunks : forall b v, bd_done b = Some v -> fst (bd_feed_all b chunks) = (b, []).
Proof.
  induction chunks as [|p r IH]; intros b v Hd; cbn [bd_feed_all]; [reflexivity|].
  pose proof (feed_done b p v Hd) as H1. destruct (bd_feed b p) as [[b1 ev1] w]. cbn [fst] in H1.
  inversion H1; subst b1 ev1.
  pose proof (IH b v Hd) as H2. destruct (bd_feed_all b r) as [[b2 ev2] ws]. cbn [fst] in H2.
  inversion H2; subst. reflexivity.
Qed.

Lemma feed_stop_short b k chunk :
  dp_stop (bd_plan b) = Some k -> bd_done b = None -> blen (bd_got b) + blen chunk < k ->
  bd_feed b chunk = (mkBD (bd_plan b) (bd_got b ++ chunk) None (bd_rcpts b) (bd_panics b), [], None).
Proof.
  intros Hs Hd Hl. unfold bd_feed. destruct chunk as [|x chunk].
  - rewrite app_nil_r. destruct b; cbn in *. subst. reflexivity.
  - rewrite Hd, Hs. rewrite take_N_all by lia.
    assert (E : blen (x :: chunk) <? k - blen (bd_got b) = true) by (apply N.ltb_lt; lia).
    rewrite E. reflexivity.
Qed.

Lemma feed_stop_reach b k chunk :
  dp_stop (bd_plan b) = Some k -> bd_done b = None ->
  blen (bd_got b) < k -> k <= blen (bd_got b) + blen chunk ->
  exists a rest w,
    chunk = a ++ rest /\ blen (bd_got b ++ a) = k /\
    bd_feed b chunk
    = (mkBD (bd_plan b) (bd_got b ++ a)
            (Some (if bd_panics b then err_panic else plan_ret (bd_plan b) None))
            (bd_rcpts b) (bd_panics b),
       [EDelivery (bd_got b ++ a) None (plan_ret (bd_plan b) None) (bd_panics b)], w).
Proof.
  intros Hs Hd Hl Hk. unfold bd_feed. destruct chunk as [|x chunk].
  - rewrite blen_nil in Hk. lia.
  - rewrite Hd, Hs.
    destruct (take_N (k - blen (bd_got b)) (x :: chunk)) as [[a rest] m] eqn:Et.
    destruct (take_N_split _ _ _ _ _ Et) as (H1 & H2 & H3).
    assert (Hm : m = 0).
    { destruct H3 as [H3|H3]; [exact H3|]. subst rest. rewrite app_nil_r in H1. rewrite H1 in Hk. lia. }
    subst m.
    assert (E : blen (x :: chunk) <? k - blen (bd_got b) = false) by (apply N.ltb_ge; lia).
    rewrite E. unfold bd_finish. cbn [bd_plan bd_got bd_done bd_rcpts bd_panics].
    exists a, rest. destruct (blen (x :: chunk) =? k - blen (bd_got b)); eexists;
      (split; [exact H1|]; split; [rewrite blen_app; lia|reflexivity]).
Qed.

Lemma feed_all_stop term chunks : forall b k,
  dp_stop (bd_plan b) = Some k -> bd_done b = None -> blen (bd_got b) < k ->
  let t' := if k <=? blen (bd_got b) + blen (List.concat chunks) then None else Some term in
  exists taken rest,
    List.concat chunks = taken ++ rest /\
    blen (bd_got b ++ taken) = N.min k (blen (bd_got b) + blen (List.concat chunks)) /\
    snd (fst (bd_feed_all b chunks)) ++ snd (bd_end (fst (fst (bd_feed_all b chunks))) term)
    = [EDelivery (bd_got b ++ taken) t' (plan_ret (bd_plan b) t') (bd_panics b)].
Proof.
  induction chunks as [|ch chunks IH]; intros b k Hs Hd Hl; cbv zeta; cbn [bd_feed_all List.concat fst snd].
  - exists [], []. rewrite blen_nil, N.add_0_r, !app_nil_r.
    assert (E : k <=? blen (bd_got b) = false) by (apply N.leb_gt; lia). rewrite E.
    split; [reflexivity|]. split; [lia|]. unfold bd_end. rewrite Hd. reflexivity.
  - rewrite blen_app.
    destruct (N.lt_ge_cases (blen (bd_got b) + blen ch) k) as [Hlt|Hge].
    + (* the chunk is read completely and the backend wants more *)
      rewrite (feed_stop_short b k ch Hs Hd Hlt).
      set (b1 := mkBD _ _ _ _ _).
      destruct (IH b1 k Hs eq_refl) as (taken & rest & H1 & H2 & H3).
      { unfold b1. cbn. rewrite blen_app. exact Hlt. }
      cbv zeta in H3.
      change (bd_got b1) with (bd_got b ++ ch) in *; change (bd_plan b1) with (bd_plan b) in *;
        change (bd_panics b1) with (bd_panics b) in *.
      rewrite (blen_app (bd_got b) ch), <- N.add_assoc in H2, H3.
      destruct (bd_feed_all b1 chunks) as [[b2 ev2] ws]. cbn [fst snd] in *.
      rewrite <- app_assoc in H2, H3.
      exists (ch ++ taken), rest. split; [rewrite H1, <- app_assoc; reflexivity|].
      split; [exact H2|exact H3].
    + (* the backend stops inside (or at the end of) this chunk *)
      destruct (feed_stop_reach b k ch Hs Hd Hl Hge) as (a & rest & w & H1 & H2 & H3).
      rewrite H3. set (b1 := mkBD _ _ _ _ _).
      pose proof (feed_all_done chunks b1 _ eq_refl) as H4.
      destruct (bd_feed_all b1 chunks) as [[b2 ev2] ws]. cbn [fst snd] in *.
      inversion H4; subst b2 ev2. unfold bd_end, b1. cbn [bd_done].
      assert (E : k <=? blen (bd_got b) + (blen ch + blen (List.concat chunks)) = true) by (apply N.leb_le; lia).
      rewrite E. exists a, (rest ++ List.concat chunks).
      split; [rewrite H1, <- app_assoc; reflexivity|].
      split; [rewrite H2; lia|]. reflexivity.
Qed.

(* A backend that stops reading after k octets (and returns): for every
   division into chunks it is called once and has read exactly the first
   min(k, total) octets of the concatenated payloads; it sees the terminal
   condition of the pipe only if the message is shorter than k. *)
Theorem pipe_stop p rcpts sp chunks term k :
  dp_stop p = Some k ->
  let total := List.concat chunks in
  let t' := if k <=? blen total then None else Some term in
  exists got rest,
    total = got ++ rest /\ blen got = N.min k (blen total) /\
    fst (pipe_run p rcpts sp chunks term)
    = [EBdatStart; EDelivery got t' (plan_ret p t') (dp_panic p || sp)].
Proof.
  intros Hs. cbv zeta. unfold pipe_run, bd_new. rewrite Hs.
  destruct (N.eq_dec k 0) as [-> | Hk].
  - (* the backend returns without reading *)
    unfold bd_finish. cbn [bd_plan bd_got bd_done bd_rcpts bd_panics].
    set (b0 := mkBD _ _ _ _ _).
    pose proof (feed_all_done chunks b0 _ eq_refl) as H4.
    destruct (bd_feed_all b0 chunks) as [[b2 ev2] ws]. cbn [fst] in H4. inversion H4; subst b2 ev2.
    unfold bd_end, b0. cbn [bd_done fst app].
    assert (E : 0 <=? blen (List.concat chunks) = true) by (apply N.leb_le; lia). rewrite E.
    exists [], (List.concat chunks). split; [reflexivity|]. split; [rewrite blen_nil; lia|reflexivity].
  - assert (Hb : forall q, match k with 0 => q | N.pos _ => (mkBD p [] None rcpts (dp_panic p || sp), [EBdatStart]) end
                        = (mkBD p [] None rcpts (dp_panic p || sp), [EBdatStart]) \/ k = 0).
    { intros q. destruct k; [right; reflexivity|left; reflexivity]. }
    match goal with |- context [match k with 0 => ?q | N.pos _ => _ end] => destruct (Hb q) as [Hb'|Hb'] end;
      [|contradiction].
    rewrite Hb'. clear Hb Hb'.
    set (b0 := mkBD p [] None rcpts (dp_panic p || sp)).
    destruct (feed_all_stop term chunks b0 k Hs eq_refl) as (taken & rest & H1 & H2 & H3).
    { change (bd_got b0) with (@nil ascii). rewrite blen_nil. lia. }
    cbv zeta in H3.
    change (bd_got b0) with (@nil ascii) in *; change (bd_plan b0) with p in *;
      change (bd_panics b0) with (dp_panic p || sp) in *.
    cbn [app] in H2, H3. rewrite blen_nil, N.add_0_l in H2, H3.
    destruct (bd_feed_all b0 chunks) as [[b1 ev1] ws]. cbn [fst snd] in *.
    destruct (bd_end b1 term) as [b2 ev2]. cbn [fst snd] in *.
    exists taken, rest. split; [exact H1|]. split; [exact H2|]. cbn [app]. rewrite H3. reflexivity.
Qed.

(* ====================================================================== *)
(* 7. a chunked transfer through handle_bdat (theorem 3, second part)      *)
(* ====================================================================== *)

(* a BDAT argument that is well-formed: a size and possibly LAST *)
Definition bdat_arg (arg : bytes) (n : N) (last : bool) : Prop :=
  exists a0 more, fields arg = a0 :: more /\ (List.length more <= 1)%nat /\
                  parse_uint 32 a0 = POk n /\ bdat_last_ok more = Some last.

(* a SetStatus call of the LMTP backend that the collector refuses (panic) *)
Definition status_panic_of (cfg : config) (p : data_plan) (rcpts : list bytes) : bool :=
  cf_lmtp cfg && cf_lmtp_session cfg && snd (run_statuses (dp_status p) (mk_collector rcpts)).

(* after MAIL and at least one accepted RCPT, no transfer open *)
Definition envelope_open (c : conn) : Prop :=
  c_from c = true /\ c_rcpts c <> [] /\ c_session c = true /\ c_bdat c = None /\ c_received c = 0%Z.

(* between two chunks: the delivery with plan [p] is running, its reader has
   yielded [got] so far, and that is also what was counted *)
Definition chunking (c : conn) (p : data_plan) (pan : bool) (got : bytes) : Prop :=
  c_from c = true /\ c_rcpts c <> [] /\ c_session c = true /\
  c_bdat c = Some (mkBD p got None (c_rcpts c) pan) /\ c_received c = Z.of_N (blen got).

(* either of the two: the transfer the next chunk belongs to *)
Definition transfer_at (cfg : config) (c : conn) (p : data_plan) (pan : bool) (got : bytes) : Prop :=
  (envelope_open c /\ p = fst (pop_data c) /\
   pan = dp_panic p || status_panic_of cfg p (c_rcpts c) /\ got = [])
  \/ chunking c p pan got.

Definition start_events (c : conn) : list event :=
  match c_bdat c with None => [EBdatStart] | Some _ => [] end.

(* the final reply (replies, in LMTP mode) to BDAT LAST *)
Definition bdat_final_replies (cfg : config) (p : data_plan) (pan : bool) (rcpts : list bytes)
           (total : bytes) : list event :=
  let ret := if pan then err_panic else dp_ret p in
  if cf_lmtp cfg then fst (bdat_lmtp_replies cfg (mkBD p total (Some ret) rcpts pan) ret)
  else let '(code, ec, msg) := data_error_to_status ret in [reply code ec msg].

Definition within_limit (cfg : config) (c : conn) (n : N) : Prop :=
  cf_max_bytes cfg = 0%Z \/ (c_received c + Z.of_N n <= cf_max_bytes cfg)%Z.

Lemma within_limit_over cfg c n : within_limit cfg c n -> bdat_over cfg c n = false.
Proof.
  intros [H|H]; unfold bdat_over.
  - rewrite H. reflexivity.
  - apply andb_false_iff. right. apply Z.ltb_ge. exact H.
Qed.

Lemma transfer_at_env cfg c p pan got :
  transfer_at cfg c p pan got -> c_from c = true /\ c_rcpts c <> [] /\ c_session c = true.
Proof. intros [((H1 & H2 & H3 & _) & _)|(H1 & H2 & H3 & _)]; auto. Qed.

Lemma classify_accept cfg c p pan got arg n last :
  transfer_at cfg c p pan got -> bdat_arg arg n last -> within_limit cfg c n ->
  bdat_classify cfg c arg = BvAccept n last.
Proof.
  intros Ht (a0 & more & Hf & Hl & Hp & Hlast) Hw.
  destruct (transfer_at_env _ _ _ _ _ Ht) as (H1 & H2 & H3).
  unfold bdat_classify. rewrite Hf, Hp, H1, Hlast, (within_limit_over _ _ _ Hw), H3.
  cbn [negb orb andb]. destruct (c_rcpts c); [congruence|].
  destruct more as [|a1 [|a2 more]]; [reflexivity|reflexivity|cbn in Hl; lia].
Qed.

Lemma bdat_start_at cfg c p pan got :
  transfer_at cfg c p pan got -> dp_stop p = None ->
  exists be0,
    bdat_start cfg c = (mkBD p got None (c_rcpts c) pan, start_events c, upd_be c be0).
Proof.
  intros [((H1 & H2 & H3 & H4 & H5) & Hp & Hpan & Hg)|(H1 & H2 & H3 & H4 & H5)] Hs;
    unfold bdat_start, start_events; rewrite H4.
  - unfold pop_data in *. destruct (pop dp_default (be_data (c_be c))) as [p' rest]. cbn [fst] in Hp.
    subst p' got. cs. unfold bd_new. rewrite Hs. fold (status_panic_of cfg p (c_rcpts c)). rewrite <- Hpan.
    eexists. reflexivity.
  - exists (c_be c). destruct c; reflexivity.
Qed.

(* A chunk without LAST, accepted: one "250 Continue", nothing else happens
   (the delivery is started if this is the first chunk); the invariant
   [chunking] is established / preserved with the payload appended. *)
Theorem bdat_chunk_continue cfg c p pan got arg n payload rest :
  transfer_at cfg c p pan got -> dp_stop p = None ->
  bdat_arg arg n false -> within_limit cfg c n ->
  t_closed (c_t c) = false -> tstream (c_t c) = payload ++ rest -> blen payload = n ->
  let '(c', ev) := handle_bdat cfg c arg in
  ev = start_events c ++ [reply 250 (2, 0, 0)%Z (bs "Continue")] /\
  chunking c' p pan (got ++ payload) /\
  tstream (c_t c') = rest /\ t_limit (c_t c') = cf_max_line cfg /\ t_closed (c_t c') = false /\
  c_closed c' = c_closed c /\ c_rcpts c' = c_rcpts c.
Proof.
  intros Ht Hs Ha Hw Hcl Hst Hn.
  pose proof (handle_bdat_cases cfg c arg) as Hc.
  rewrite (classify_accept cfg c p pan got arg n false Ht Ha Hw) in Hc. rewrite Hc.
  destruct (copy_n_exact (set_limit (c_t c) 0) n payload rest) as (t1 & Hcp & Hr & Hcl1 & _ & Htm);
    [exact Hcl|reflexivity|exact Hst|exact Hn|].
  rewrite Hcp. unfold bdat_fed.
  destruct (bdat_start_at cfg c p pan got Ht Hs) as (be0 & Hb). rewrite Hb.
  rewrite feed_read_all by (cbn; first [assumption|reflexivity]).
  cbn [bd_plan bd_got bd_rcpts bd_panics negb app].
  destruct (transfer_at_env _ _ _ _ _ Ht) as (H1 & H2 & H3).
  assert (Hrv : c_received c = Z.of_N (blen got)).
  { destruct Ht as [((_ & _ & _ & _ & H5) & _ & _ & Hg)|(_ & _ & _ & _ & H5)]; [subst got; exact H5|exact H5]. }
  split; [reflexivity|].
  destruct c as [t ph be h se er bm fr rc da cl tl bd rv]. cs. subst.
  split; [|auto].
  unfold chunking. cs. repeat split; try assumption.
  rewrite blen_app. lia.
Qed.

Lemma lmtp_replies_panicked cfg b e : snd (bdat_lmtp_replies cfg b e) = bd_panics b.
Proof.
  unfold bdat_lmtp_replies. destruct (cf_lmtp_session cfg).
  - destruct (run_statuses _ _) as [col ?]. destruct (bd_panics b); reflexivity.
  - destruct (bd_panics b); reflexivity.
Qed.

(* The LAST chunk, accepted: the write side of the pipe is closed, the
   backend's reader - which has yielded exactly the payloads so far plus this
   one - reports end-of-file, the backend returns, and its verdict is the
   final reply; then the transaction is reset (or, if the delivery panicked,
   the connection closed). *)
Theorem bdat_chunk_last cfg c p pan got arg n payload rest :
  transfer_at cfg c p pan got -> dp_stop p = None ->
  bdat_arg arg n true -> within_limit cfg c n ->
  t_closed (c_t c) = false -> tstream (c_t c) = payload ++ rest -> blen payload = n ->
  let '(c', ev) := handle_bdat cfg c arg in
  let total := got ++ payload in
  ev = start_events c ++ [EDelivery total (Some REOF) (dp_ret p) pan]
       ++ bdat_final_replies cfg p pan (c_rcpts c) total
       ++ (if pan then [ELogout; EClose] else [EReset]) /\
  tstream (c_t c') = rest /\ t_limit (c_t c') = cf_max_line cfg /\
  (if pan then c_closed c' = true
   else c_closed c' = c_closed c /\ t_closed (c_t c') = false /\ c_session c' = true /\
        c_bdat c' = None /\ c_received c' = 0%Z /\ c_from c' = false /\ c_rcpts c' = []).
Proof.
  intros Ht Hs Ha Hw Hcl Hst Hn.
  pose proof (handle_bdat_cases cfg c arg) as Hc.
  rewrite (classify_accept cfg c p pan got arg n true Ht Ha Hw) in Hc. rewrite Hc.
  destruct (copy_n_exact (set_limit (c_t c) 0) n payload rest) as (t1 & Hcp & Hr & Hcl1 & _ & Htm);
    [exact Hcl|reflexivity|exact Hst|exact Hn|].
  rewrite Hcp. unfold bdat_fed.
  destruct (bdat_start_at cfg c p pan got Ht Hs) as (be0 & Hb). rewrite Hb.
  rewrite feed_read_all by (cbn; first [assumption|reflexivity]).
  cbn [bd_plan bd_got bd_rcpts bd_panics negb app].
  destruct (transfer_at_env _ _ _ _ _ Ht) as (H1 & H2 & H3).
  unfold bd_end, bd_finish, plan_ret, bdat_final_replies. cbn [bd_plan bd_got bd_rcpts bd_panics bd_done].
  destruct c as [t ph be h se er bm fr rc da cl tl bd rv]. cs. subst.
  destruct (cf_lmtp cfg).
  - match goal with |- context [bdat_lmtp_replies ?a ?b ?e] =>
      pose proof (lmtp_replies_panicked a b e) as Hp; destruct (bdat_lmtp_replies a b e) as [rs pk] end.
    cbn [snd bd_panics] in Hp. subst pk. cbn [fst].
    destruct pan; rewrite ?do_close_eq, ?do_reset_eq; unfold close_c, close_ev, reset_c, reset_ev; cbn;
      rewrite ?app_nil_r; auto 10.
  - match goal with |- context [data_error_to_status ?e] => destruct (data_error_to_status e) as [[code ec] msg] end.
    destruct pan; rewrite ?do_close_eq, ?do_reset_eq; unfold close_c, close_ev, reset_c, reset_ev; cbn;
      rewrite ?app_nil_r; auto 10.
Qed.

(* ---- the whole transfer: any number of chunks ---- *)

(* One BDAT command of a transfer as the handler meets it: the argument of
   the command line, the transport state after that line has been read (ANY
   state: whatever is buffered, whatever raw reads follow), the chunk's
   payload and what follows it in the stream. *)
Record chunk_step := mkStep { st_arg : bytes; st_t : transport; st_payload : bytes; st_rest : bytes }.

Definition step_ok (last : bool) (s : chunk_step) : Prop :=
  bdat_arg (st_arg s) (blen (st_payload s)) last /\
  t_closed (st_t s) = false /\ tstream (st_t s) = st_payload s ++ st_rest s.

(* The handler invocations of consecutive BDAT commands.  Between two
   commands the loop only reads the next command line, i.e. changes the
   transport (ConnProofs.conn_read_line_c); [st_t] is the result of that. *)
Fixpoint bdat_seq (cfg : config) (c : conn) (steps : list chunk_step) : hres :=
  match steps with
  | [] => (c, [])
  | s :: r =>
      let '(c1, ev1) := handle_bdat cfg (upd_t c (st_t s)) (st_arg s) in
      let '(c2, ev2) := bdat_seq cfg c1 r in
      (c2, ev1 ++ ev2)
  end.

Lemma transfer_at_upd_t cfg c p pan got t :
  transfer_at cfg c p pan got -> transfer_at cfg (upd_t c t) p pan got.
Proof.
  unfold transfer_at, envelope_open, chunking, pop_data. destruct c. cs.
  destruct (pop dp_default (be_data c_be)). exact (fun H => H).
Qed.

Lemma transfer_at_received cfg c p pan got :
  transfer_at cfg c p pan got -> c_received c = Z.of_N (blen got).
Proof.
  intros [((_ & _ & _ & _ & H5) & _ & _ & Hg)|(_ & _ & _ & _ & H5)]; [subst got; exact H5|exact H5].
Qed.

Definition continue_reply : event := reply 250 (2, 0, 0)%Z (bs "Continue").

(* For EVERY division of a message into chunks (any number of non-LAST
   chunks of any sizes incl. zero, then a LAST chunk of any size incl. zero),
   every payload, every transport state at each chunk: one delivery, whose
   reader yields exactly the concatenation of the payloads and then
   end-of-file; one "250 Continue" per non-LAST chunk; the final reply is the
   backend's verdict; after each chunk the stream stands right behind it. *)
Theorem bdat_transfer_exact cfg p pan (steps : list chunk_step) (final : chunk_step) :
  dp_stop p = None ->
  Forall (step_ok false) steps -> step_ok true final ->
  forall c got,
  transfer_at cfg c p pan got ->
  (cf_max_bytes cfg = 0%Z \/
   (Z.of_N (blen got + blen (List.concat (map st_payload steps)) + blen (st_payload final))
    <= cf_max_bytes cfg)%Z) ->
  let '(c', ev) := bdat_seq cfg c (steps ++ [final]) in
  let total := got ++ List.concat (map st_payload steps) ++ st_payload final in
  ev = start_events c ++ repeat continue_reply (List.length steps)
       ++ [EDelivery total (Some REOF) (dp_ret p) pan]
       ++ bdat_final_replies cfg p pan (c_rcpts c) total
       ++ (if pan then [ELogout; EClose] else [EReset]) /\
  tstream (c_t c') = st_rest final /\ t_limit (c_t c') = cf_max_line cfg /\
  (if pan then c_closed c' = true
   else c_closed c' = c_closed c /\ t_closed (c_t c') = false /\ c_session c' = true /\
        c_bdat c' = None /\ c_received c' = 0%Z /\ c_from c' = false /\ c_rcpts c' = []).
Proof.
  intros Hs Hsteps (Hfa & Hfc & Hfs).
  induction Hsteps as [|s steps (Ha & Hc & Hst) Hsteps IH]; intros c got Ht Hlim.
  - cbn [app bdat_seq map List.concat List.length repeat].
    pose proof (bdat_chunk_last cfg (upd_t c (st_t final)) p pan got (st_arg final) _ (st_payload final)
                  (st_rest final) (transfer_at_upd_t _ _ _ _ _ _ Ht) Hs Hfa) as H.
    pose proof (transfer_at_received _ _ _ _ _ Ht) as Hrv.
    destruct (handle_bdat cfg (upd_t c (st_t final)) (st_arg final)) as [c1 ev1].
    destruct H as (He & H); [| | |reflexivity|].
    { destruct Hlim as [Hl|Hl]; [left; exact Hl|right]. destruct c; cs. rewrite Hrv.
      cbn [List.concat map] in Hl. rewrite blen_nil in Hl. lia. }
    { destruct c; exact Hfc. }
    { destruct c; exact Hfs. }
    rewrite app_nil_r. split; [|destruct c; exact H].
    rewrite He. destruct c; reflexivity.
  - cbn [app bdat_seq map List.concat List.length repeat].
    pose proof (bdat_chunk_continue cfg (upd_t c (st_t s)) p pan got (st_arg s) _ (st_payload s)
                  (st_rest s) (transfer_at_upd_t _ _ _ _ _ _ Ht) Hs Ha) as H.
    pose proof (transfer_at_received _ _ _ _ _ Ht) as Hrv.
    destruct (handle_bdat cfg (upd_t c (st_t s)) (st_arg s)) as [c1 ev1].
    destruct H as (He & Hch & _ & _ & _ & Hcl1 & Hrc1); [| | |reflexivity|].
    { destruct Hlim as [Hl|Hl]; [left; exact Hl|right]. destruct c; cs. rewrite Hrv.
      cbn [List.concat map] in Hl. rewrite blen_app in Hl. lia. }
    { destruct c; exact Hc. }
    { destruct c; exact Hst. }
    specialize (IH c1 (got ++ st_payload s) (or_intror Hch)).
    destruct (bdat_seq cfg c1 (steps ++ [final])) as [c2 ev2].
    destruct IH as (He2 & Hrest).
    { destruct Hlim as [Hl|Hl]; [left; exact Hl|right].
      cbn [List.concat map] in Hl. rewrite !blen_app in *. lia. }
    assert (Hse1 : start_events c1 = []).
    { unfold start_events. destruct Hch as (_ & _ & _ & Hb & _). rewrite Hb. reflexivity. }
    rewrite Hse1 in He2. cbn [app] in He2.
    split.
    + rewrite He, He2, Hrc1. destruct c; cs. unfold start_events. cs.
      rewrite <- !app_assoc. cbn [app]. reflexivity.
    + rewrite Hcl1 in Hrest. destruct c; exact Hrest.
Qed.

(* ====================================================================== *)
(* 8. the message size limit on the BDAT path (C06, BDAT half)             *)
(* ====================================================================== *)

(* the same configuration without a size limit *)
Definition cfg_no_limit (cfg : config) : config :=
  mkCfg (cf_lmtp cfg) (cf_tls_config cfg) (cf_domain cfg) (cf_max_rcpt cfg) 0%Z (cf_max_line cfg)
        (cf_insecure_auth cfg) (cf_utf8 cfg) (cf_requiretls cfg) (cf_binarymime cfg) (cf_dsn cfg)
        (cf_rrvs cfg) (cf_lmtp_session cfg) (cf_auth cfg) (cf_implicit_tls cfg).

(* a chunk that keeps the total within the limit is handled exactly as if no
   limit were configured: same state, same events *)
Theorem bdat_within_limit_as_unlimited cfg c arg :
  (forall n, bdat_size_known arg n -> (c_received c + Z.of_N n <= cf_max_bytes cfg)%Z) ->
  handle_bdat cfg c arg = handle_bdat (cfg_no_limit cfg) c arg.
Proof.
  intros H. unfold cfg_no_limit. destruct cfg as [lm tc dm mr mb ml ia u8 rt bmm dsn rrvs ls au it].
  cbn [cf_lmtp cf_tls_config cf_domain cf_max_rcpt cf_max_bytes cf_max_line cf_insecure_auth cf_utf8
       cf_requiretls cf_binarymime cf_dsn cf_rrvs cf_lmtp_session cf_auth cf_implicit_tls] in *.
  unfold handle_bdat.
  destruct (fields arg) as [|a0 more] eqn:Hf; [reflexivity|].
  destruct (parse_uint 32 a0) as [size| |] eqn:Hp; [|reflexivity|reflexivity].
  destruct more as [|a1 [|a2 more]]; [| |reflexivity].
  all: assert (Hle : (c_received c + Z.of_N size <= mb)%Z)
         by (apply H; eexists a0, _; split; [exact Hf|]; split; [cbn; lia|exact Hp]).
  all: assert (Hov : (mb <? c_received c + Z.of_N size)%Z = false) by (apply Z.ltb_ge; exact Hle).
  all: cbn [cf_max_bytes]; rewrite Hov, andb_false_r; cbn [Z.eqb negb andb]; reflexivity.
Qed.

(* ---- nothing beyond the limit is counted or handed over ---- *)

Definition ev_bounded (N : Z) (e : event) : Prop :=
  match e with EDelivery got _ _ _ => (Z.of_N (blen got) <= N)%Z | _ => True end.

(* what the backend of the running transfer has read is covered by the count *)
Definition bdat_bounded (c : conn) : Prop :=
  (0 <= c_received c)%Z /\
  forall b, c_bdat c = Some b -> (Z.of_N (blen (bd_got b)) <= c_received c)%Z.

Lemma wires_bounded N l : forallb is_wire l = true -> Forall (ev_bounded N) l.
Proof.
  induction l as [|e l IH]; intros H; [constructor|].
  cbn in H. apply andb_true_iff in H as [H1 H2]. constructor; [|apply IH, H2].
  destruct e; try discriminate. exact I.
Qed.

Lemma finish_bounded N b t :
  (Z.of_N (blen (bd_got b)) <= N)%Z ->
  Forall (ev_bounded N) (snd (bd_finish b t)) /\ bd_got (fst (bd_finish b t)) = bd_got b.
Proof. intros H. unfold bd_finish. cbn. split; [repeat constructor; exact H|reflexivity]. Qed.

Lemma end_bounded N b t :
  (Z.of_N (blen (bd_got b)) <= N)%Z ->
  Forall (ev_bounded N) (snd (bd_end b t)) /\ bd_got (fst (bd_end b t)) = bd_got b.
Proof.
  intros H. unfold bd_end. destruct (bd_done b); [split; [constructor|reflexivity]|].
  apply finish_bounded, H.
Qed.

Lemma new_bounded N p rc sp :
  (0 <= N)%Z -> Forall (ev_bounded N) (snd (bd_new p rc sp)) /\ bd_got (fst (bd_new p rc sp)) = [].
Proof.
  intros H. unfold bd_new. destruct (dp_stop p) as [[|k]|]; cbn; split; try reflexivity;
    repeat constructor; exact H.
Qed.

Lemma feed_bounded N b chunk :
  (Z.of_N (blen (bd_got b) + blen chunk) <= N)%Z ->
  Forall (ev_bounded N) (snd (fst (bd_feed b chunk))) /\
  blen (bd_got (fst (fst (bd_feed b chunk)))) <= blen (bd_got b) + blen chunk.
Proof.
  intros H. unfold bd_feed. destruct chunk as [|x chunk]; [cbn; split; [constructor|lia]|].
  destruct (bd_done b); [cbn; split; [constructor|lia]|].
  destruct (dp_stop (bd_plan b)) as [k|].
  2:{ cbn [fst snd bd_got]. split; [constructor|rewrite blen_app; lia]. }
  destruct (take_N (k - blen (bd_got b)) (x :: chunk)) as [[a r] m] eqn:Et.
  destruct (take_N_split _ _ _ _ _ Et) as (H1 & H2 & H3).
  assert (Hla : blen a <= blen (x :: chunk)) by (rewrite H1, blen_app; lia).
  destruct (_ <? _).
  { cbn [fst snd bd_got]. split; [constructor|rewrite blen_app; lia]. }
  set (b1 := mkBD _ _ _ _ _).
  destruct (finish_bounded N b1 None) as [Hf1 Hf2].
  { unfold b1. cbn [bd_got]. rewrite blen_app. lia. }
  destruct (bd_finish b1 None) as [b2 ev]. cbn [fst snd] in *.
  destruct (_ =? _); cbn [fst snd]; (split; [exact Hf1|rewrite Hf2; unfold b1; cbn [bd_got]; rewrite blen_app; lia]).
Qed.

Lemma abort_bounded N bd :
  (forall b, bd = Some b -> (Z.of_N (blen (bd_got b)) <= N)%Z) -> Forall (ev_bounded N) (abort_ev bd).
Proof.
  intros H. destruct bd as [b|]; [|constructor]. cbn [abort_ev]. apply end_bounded, H. reflexivity.
Qed.

Lemma Forall_cons_wire N w l : Forall (ev_bounded N) l -> Forall (ev_bounded N) (EWire w :: l).
Proof. intros H. constructor; [exact I|exact H]. Qed.

Lemma reset_bounded N c :
  (forall b, c_bdat c = Some b -> (Z.of_N (blen (bd_got b)) <= N)%Z) -> Forall (ev_bounded N) (reset_ev c).
Proof.
  intros H. unfold reset_ev. apply Forall_app. split; [apply abort_bounded, H|].
  destruct (c_session c); repeat constructor.
Qed.

Lemma close_bounded N c :
  (forall b, c_bdat c = Some b -> (Z.of_N (blen (bd_got b)) <= N)%Z) -> Forall (ev_bounded N) (close_ev c).
Proof.
  intros H. unfold close_ev. apply Forall_app. split; [apply abort_bounded, H|].
  destruct (c_session c); repeat constructor.
Qed.

Lemma bdat_start_bounded N cfg c :
  (0 <= N)%Z -> (forall b, c_bdat c = Some b -> (Z.of_N (blen (bd_got b)) <= N)%Z) ->
  Forall (ev_bounded N) (snd (fst (bdat_start cfg c))) /\
  (Z.of_N (blen (bd_got (fst (fst (bdat_start cfg c))))) <= N)%Z.
Proof.
  intros H0 H. unfold bdat_start. destruct (c_bdat c) as [b|].
  - cbn. split; [constructor|apply H; reflexivity].
  - unfold pop_data. destruct (pop dp_default (be_data (c_be c))) as [p rest].
    match goal with |- context [bd_new ?p ?r ?s] =>
      destruct (new_bounded N p r s H0) as [H1 H2]; destruct (bd_new p r s) as [b ev] end.
    cbn [fst snd] in *. split; [exact H1|]. rewrite H2, blen_nil. exact H0.
Qed.

Lemma ev_bounded_mono N1 N2 l : (N1 <= N2)%Z -> Forall (ev_bounded N1) l -> Forall (ev_bounded N2) l.
Proof.
  intros H. apply Forall_impl. intros e. destruct e; cbn; try exact (fun x => x). lia.
Qed.

Ltac fb :=
  repeat first
    [ assumption
    | apply Forall_nil
    | apply Forall_app; split
    | apply Forall_cons; [exact I|] ].

Lemma bdat_fed_bounded N cfg c size last chunk cerr t1 :
  bdat_bounded c -> (c_received c + Z.of_N size <= N)%Z -> blen chunk <= size ->
  Forall (ev_bounded N) (snd (bdat_fed cfg c size last chunk cerr t1)) /\
  bdat_bounded (fst (bdat_fed cfg c size last chunk cerr t1)) /\
  (c_received (fst (bdat_fed cfg c size last chunk cerr t1)) <= N)%Z.
Proof.
  intros [Hrv Hb] HN Hch. unfold bdat_fed.
  assert (HN0 : (c_received c <= N)%Z) by lia.
  destruct (bdat_start_bounded (c_received c) cfg c Hrv Hb) as [Hev0 Hb0].
  apply (ev_bounded_mono _ N _ HN0) in Hev0.
  destruct (bdat_start_c cfg c) as [be0 Hc0].
  destruct (bdat_start cfg c) as [[b0 ev0] c0]. cbn [fst snd] in *. subst c0.
  destruct (feed_bounded N b0 chunk) as [Hev1 Hb1]; [lia|].
  destruct (bd_feed b0 chunk) as [[b1 ev1] werr]. cbn [fst snd] in *.
  assert (Hb1N : (Z.of_N (blen (bd_got b1)) <= N)%Z) by lia.
  assert (Hnone : forall b : bdat, @None bdat = Some b -> (Z.of_N (blen (bd_got b)) <= N)%Z) by discriminate.
  assert (Hbb0 : forall rv : Z, (0 <= rv)%Z ->
            (0 <= rv)%Z /\ (forall b : bdat, @None bdat = Some b -> (Z.of_N (blen (bd_got b)) <= rv)%Z)).
  { intros rv H. split; [exact H|discriminate]. }
  destruct c as [t ph be h se er bm fr rc da cl tl bd rv]. cs. unfold bdat_bounded.
  destruct werr as [e|]; [|destruct cerr as [te|]].
  1: cbv beta iota zeta.
  2: (cbv beta iota zeta; destruct (t_copy_n (size - blen chunk) t1) as [[dg de] t1d] eqn:Edisc; cbv beta iota zeta).
  1,2: destruct (last && cf_lmtp cfg);
       [ match goal with |- context [bd_end ?b ?pe] =>
           destruct (end_bounded N b pe Hb1N) as [Hev2 Hg2]; destruct (bd_end b pe) as [b2 ev2] end;
         cbn [fst snd] in Hev2, Hg2;
         match goal with |- context [bdat_lmtp_replies ?a ?b ?e] =>
           pose proof (wires_bounded N _ (bdat_lmtp_replies_wires a b e)) as Hrs;
           destruct (bdat_lmtp_replies a b e) as [rs pk] end;
         cbn [fst] in Hrs
       | match goal with |- context [data_error_to_status ?e] => destruct (data_error_to_status e) as [[code ec] msg] end ];
       cbv beta iota zeta;
       match goal with |- context [if ?b then do_close _ else _] => destruct b end;
       rewrite ?do_close_eq; cbv beta iota; rewrite ?do_reset_eq;
       unfold close_c, close_ev, reset_c, reset_ev, reply; cs;
       (split; [|split; [apply Hbb0; lia|lia]]);
       destruct se; fb;
       try (apply abort_bounded; intros b Hbe; inversion Hbe; subst; try rewrite Hg2; lia).
  destruct last; cbn [negb].
  2:{ cs. unfold reply. split; [fb|]. split; [|lia]. split; [lia|]. intros b Hbe. inversion Hbe; subst. lia. }
  destruct (end_bounded N b1 REOF Hb1N) as [Hev2 Hg2]. destruct (bd_end b1 REOF) as [b2 ev2].
  cbn [fst snd] in Hev2, Hg2.
  destruct (cf_lmtp cfg).
  - match goal with |- context [bdat_lmtp_replies ?a ?b ?e] =>
      pose proof (wires_bounded N _ (bdat_lmtp_replies_wires a b e)) as Hrs;
      destruct (bdat_lmtp_replies a b e) as [rs pk] end.
    cbn [fst] in Hrs.
    destruct pk; rewrite ?do_close_eq, ?do_reset_eq; unfold close_c, close_ev, reset_c, reset_ev; cs;
      (split; [|split; [apply Hbb0; lia|lia]]);
      destruct se; fb;
      try (apply abort_bounded; intros b Hbe; inversion Hbe; subst; try rewrite Hg2; lia).
  - match goal with |- context [data_error_to_status ?e] => destruct (data_error_to_status e) as [[code ec] msg] end.
    destruct (bd_panics b2); rewrite ?do_close_eq, ?do_reset_eq;
      unfold close_c, close_ev, reset_c, reset_ev, reply; cs;
      (split; [|split; [apply Hbb0; lia|lia]]);
      destruct se; fb;
      try (apply abort_bounded; intros b Hbe; inversion Hbe; subst; try rewrite Hg2; lia).
Qed.

(* With a limit N > 0: whatever the command, the stream and the backend do,
   the count never exceeds N, the backend of the running transfer has read no
   more than was counted, and no delivery that this command starts, feeds,
   completes or aborts has been handed more than N octets. *)
Theorem bdat_limit_invariant cfg c arg :
  (0 < cf_max_bytes cfg)%Z ->
  bdat_bounded c -> (c_received c <= cf_max_bytes cfg)%Z ->
  let '(c', ev) := handle_bdat cfg c arg in
  bdat_bounded c' /\ (c_received c' <= cf_max_bytes cfg)%Z /\
  Forall (ev_bounded (cf_max_bytes cfg)) ev.
Proof.
  intros HN [Hrv Hb] HrvN.
  assert (HbN : forall b, c_bdat c = Some b -> (Z.of_N (blen (bd_got b)) <= cf_max_bytes cfg)%Z).
  { intros b Hbe. specialize (Hb b Hbe). lia. }
  pose proof (handle_bdat_cases cfg c arg) as Hc.
  destruct (bdat_classify cfg c arg) as [|s|s|s| |s last] eqn:Ecl.
  - destruct Hc as [w ->]. split; [split; assumption|]. split; [assumption|]. repeat constructor.
  - rewrite Hc. destruct (discard_cases cfg c s) as [(_ & -> & ->)|(_ & -> & ->)].
    + destruct c; cs. split; [split; assumption|]. split; [assumption|]. repeat constructor.
    + split; [split; [destruct c; exact Hrv|destruct c; discriminate]|]. split; [destruct c; exact HrvN|].
      constructor; [exact I|apply close_bounded; exact HbN].
  - rewrite Hc. destruct (discard_cases cfg c s) as [(_ & -> & ->)|(_ & -> & ->)].
    + destruct c; cs. split; [split; assumption|]. split; [assumption|]. repeat constructor.
    + split; [split; [destruct c; exact Hrv|destruct c; discriminate]|]. split; [destruct c; exact HrvN|].
      constructor; [exact I|apply close_bounded; exact HbN].
  - rewrite Hc. destruct (discard_cases cfg c s) as [(_ & -> & ->)|(_ & -> & ->)]; unfold reset_c; cs.
    + split; [unfold bdat_bounded; cbn; split; [lia|discriminate]|]. split; [lia|].
      apply Forall_app. split; [repeat constructor|]. apply reset_bounded. destruct c; exact HbN.
    + split; [unfold bdat_bounded; cbn; split; [lia|discriminate]|]. split; [lia|].
      apply Forall_app. split; [repeat constructor|]. apply Forall_app. split; [apply close_bounded; exact HbN|].
      apply reset_bounded. destruct c; discriminate.
  - rewrite Hc. split; [split; assumption|]. split; [assumption|]. repeat constructor.
  - rewrite Hc.
    assert (Hov : bdat_over cfg c s = false).
    { unfold bdat_classify in Ecl.
      destruct (fields arg) as [|a0 [|a1 [|a2 more]]]; try discriminate;
        destruct (parse_uint 32 a0); try discriminate;
        destruct (negb (c_from c) || _); try discriminate;
        destruct (bdat_last_ok _); try discriminate;
        destruct (bdat_over cfg c _) eqn:Eo; try discriminate;
        destruct (negb (c_session c) && _); try discriminate; inversion Ecl; subst; exact Eo. }
    unfold bdat_over in Hov. apply andb_false_iff in Hov. destruct Hov as [Hov|Hov].
    { apply negb_false_iff, Z.eqb_eq in Hov. lia. }
    apply Z.ltb_ge in Hov.
    destruct (t_copy_n s (set_limit (c_t c) 0)) as [[chunk cerr] t1] eqn:Ecp.
    destruct (t_copy_n_len _ _ _ _ _ Ecp) as [Hlen _].
    pose proof (bdat_fed_bounded (cf_max_bytes cfg) cfg c s last chunk cerr t1 (conj Hrv Hb) Hov Hlen) as H.
    destruct (bdat_fed cfg c s last chunk cerr t1) as [c' ev]. cbn [fst snd] in H.
    destruct H as (H1 & H2 & H3). auto.
Qed.

(* the over-limit chunk in terms of what the backend sees: a running
   delivery is aborted with ErrDataReset (never end-of-file), a finished one
   is left alone *)
Lemma abort_ev_running b :
  bd_done b = None ->
  abort_ev (Some b)
  = [EDelivery (bd_got b) (Some RDataReset) (plan_ret (bd_plan b) (Some RDataReset)) (bd_panics b)].
Proof. intros H. cbn [abort_ev]. unfold bd_end. rewrite H. reflexivity. Qed.

Lemma abort_ev_done b v : bd_done b = Some v -> abort_ev (Some b) = [].
Proof. intros H. cbn [abort_ev]. unfold bd_end. rewrite H. reflexivity. Qed.

(* 552, the declared octets being there: the chunk is skipped (bdat_resume),
   the delivery aborted, the envelope and the count reset *)
Theorem bdat_over_limit cfg c arg a0 more n last payload rest :
  fields arg = a0 :: more -> (List.length more <= 1)%nat -> parse_uint 32 a0 = POk n ->
  c_from c = true -> c_rcpts c <> [] -> bdat_last_ok more = Some last ->
  cf_max_bytes cfg <> 0%Z -> (cf_max_bytes cfg < c_received c + Z.of_N n)%Z ->
  t_closed (c_t c) = false -> tstream (c_t c) = payload ++ rest -> blen payload = n ->
  let '(c', ev) := handle_bdat cfg c arg in
  ev = [reply 552 (5, 3, 4)%Z (bs "Max message size exceeded")]
       ++ abort_ev (c_bdat c) ++ (if c_session c then [EReset] else []) /\
  c_bdat c' = None /\ c_received c' = 0%Z /\ c_from c' = false /\ c_rcpts c' = [] /\
  c_closed c' = c_closed c /\ c_session c' = c_session c.
Proof.
  intros Hf Hl Hp Hfr Hrc Hlast Hm Hover Hcl Hs Hn.
  rewrite (bdat_refused_over_limit cfg c arg a0 more n last Hf Hl Hp Hfr Hrc Hlast Hm Hover).
  destruct (bdat_refusal_complete cfg c n payload rest Hcl Hs Hn) as (t' & -> & -> & _).
  destruct c; cbn. auto 10.
Qed.

(* ====================================================================== *)
(* 9. exactly one reply per BDAT command (one per recipient for LMTP LAST) *)
(* ====================================================================== *)

Definition count_wires (ev : list event) : nat := List.length (filter is_wire ev).

Lemma count_wires_app a b : count_wires (a ++ b) = (count_wires a + count_wires b)%nat.
Proof. unfold count_wires. rewrite filter_app, app_length. reflexivity. Qed.

Lemma count_wires_all l : forallb is_wire l = true -> count_wires l = List.length l.
Proof.
  unfold count_wires. induction l as [|e l IH]; intros H; [reflexivity|].
  cbn in H. apply andb_true_iff in H as [H1 H2]. cbn. rewrite H1. cbn. rewrite IH by exact H2. reflexivity.
Qed.

Lemma cw_finish b t : count_wires (snd (bd_finish b t)) = 0%nat.
Proof. reflexivity. Qed.

Lemma cw_end b t : count_wires (snd (bd_end b t)) = 0%nat /\ bd_rcpts (fst (bd_end b t)) = bd_rcpts b.
Proof. unfold bd_end. destruct (bd_done b); split; reflexivity. Qed.

Lemma cw_new p rc sp : count_wires (snd (bd_new p rc sp)) = 0%nat /\ bd_rcpts (fst (bd_new p rc sp)) = rc.
Proof. unfold bd_new. destruct (dp_stop p) as [[|k]|]; split; reflexivity. Qed.

Lemma cw_feed b chunk :
  count_wires (snd (fst (bd_feed b chunk))) = 0%nat /\ bd_rcpts (fst (fst (bd_feed b chunk))) = bd_rcpts b.
Proof.
  unfold bd_feed. destruct chunk as [|x chunk]; [split; reflexivity|].
  destruct (bd_done b); [split; reflexivity|].
  destruct (dp_stop (bd_plan b)) as [k|]; [|split; reflexivity].
  destruct (take_N _ _) as [[a ?] ?]. destruct (_ <? _); [split; reflexivity|].
  unfold bd_finish. destruct (blen (x :: chunk) =? _); split; reflexivity.
Qed.

Lemma cw_abort bd : count_wires (abort_ev bd) = 0%nat.
Proof. destruct bd as [b|]; [|reflexivity]. cbn [abort_ev]. apply cw_end. Qed.

Lemma cw_reset c : count_wires (reset_ev c) = 0%nat.
Proof. unfold reset_ev. rewrite count_wires_app, cw_abort. destruct (c_session c); reflexivity. Qed.

Lemma cw_close c : count_wires (close_ev c) = 0%nat.
Proof. unfold close_ev. rewrite count_wires_app, cw_abort. destruct (c_session c); reflexivity. Qed.

(* the collector hands out one status per recipient, whatever the backend did *)
Lemma emit_fill_length rcpts calls fv :
  List.length (emit_statuses rcpts (fill_remaining fv (fst (run_statuses calls (mk_collector rcpts)))))
  = List.length rcpts.
Proof.
  destruct (run_statuses_spec rcpts calls [] (mk_collector rcpts)) as (c' & Hr & Hc & Hq).
  { apply mk_collector_cap. }
  { intros a. rewrite mk_collector_que. reflexivity. }
  rewrite Hr. cbn [fst].
  rewrite (emit_fill rcpts (ok_calls_from rcpts [] calls) fv c').
  - unfold expected_statuses. apply assign_length.
  - exact Hc.
  - intros a. rewrite Hq, mk_collector_que. reflexivity.
Qed.

Lemma lmtp_replies_count cfg b e :
  count_wires (fst (bdat_lmtp_replies cfg b e)) = List.length (bd_rcpts b).
Proof.
  rewrite count_wires_all by apply bdat_lmtp_replies_wires.
  unfold bdat_lmtp_replies. destruct (cf_lmtp_session cfg).
  - pose proof (emit_fill_length (bd_rcpts b) (dp_status (bd_plan b))) as H.
    destruct (run_statuses (dp_status (bd_plan b)) (mk_collector (bd_rcpts b))) as [col pp]. cbn [fst] in H.
    destruct (bd_panics b); cbn [fst]; rewrite map_length; apply H.
  - destruct (bd_panics b); cbn [fst]; rewrite !map_length; reflexivity.
Qed.

(* the recipients of the transfer a chunk goes to *)
Definition transfer_rcpts (c : conn) : list bytes :=
  match c_bdat c with Some b => bd_rcpts b | None => c_rcpts c end.

Lemma bdat_start_rcpts cfg c :
  count_wires (snd (fst (bdat_start cfg c))) = 0%nat /\
  bd_rcpts (fst (fst (bdat_start cfg c))) = transfer_rcpts c.
Proof.
  unfold bdat_start, transfer_rcpts. destruct (c_bdat c); [split; reflexivity|].
  unfold pop_data. destruct (pop dp_default (be_data (c_be c))) as [p rest]. cs.
  match goal with |- context [bd_new ?p ?r ?s] =>
    destruct (cw_new p r s) as [H1 H2]; destruct (bd_new p r s) as [b ev] end.
  cbn [fst snd] in *. split; assumption.
Qed.

Ltac cw_simpl :=
  rewrite ?count_wires_app, ?cw_reset, ?cw_close; cbn [count_wires filter is_wire List.length reply];
  rewrite ?Nat.add_0_r, ?Nat.add_0_l.

Lemma bdat_fed_count cfg c size last chunk cerr t1 :
  count_wires (snd (bdat_fed cfg c size last chunk cerr t1))
  = if last && cf_lmtp cfg then List.length (transfer_rcpts c) else 1%nat.
Proof.
  unfold bdat_fed. destruct (bdat_start_rcpts cfg c) as [Hw0 Hr0].
  destruct (bdat_start cfg c) as [[b0 ev0] c0]. cbn [fst snd] in *.
  destruct (cw_feed b0 chunk) as [Hw1 Hr1].
  destruct (bd_feed b0 chunk) as [[b1 ev1] werr]. cbn [fst snd] in *.
  rewrite <- Hr0, <- Hr1.
  destruct werr as [e|]; [|destruct cerr as [te|]].
  1: cbv beta iota zeta.
  2: (cbv beta iota zeta; destruct (t_copy_n (size - blen chunk) t1) as [[dg de] t1d] eqn:Edisc; cbv beta iota zeta).
  1,2: destruct (last && cf_lmtp cfg);
       [ match goal with |- context [bd_end ?b ?pe] =>
           destruct (cw_end b pe) as [Hw2 Hr2]; destruct (bd_end b pe) as [b2 ev2] end;
         cbn [fst snd] in Hw2, Hr2;
         match goal with |- context [bdat_lmtp_replies ?a ?b ?e] =>
           pose proof (lmtp_replies_count a b e) as Hrs;
           destruct (bdat_lmtp_replies a b e) as [rs pk] end;
         cbn [fst] in Hrs
       | match goal with |- context [data_error_to_status ?e] => destruct (data_error_to_status e) as [[code ec] msg] end ];
       cbv beta iota zeta;
       match goal with |- context [if ?b then do_close _ else _] => destruct b end;
       rewrite ?do_close_eq; cbv beta iota; rewrite ?do_reset_eq; cbn [snd];
       cw_simpl; rewrite ?Hw0, ?Hw1, ?Hw2, ?Hrs, ?Hr2; cbn; lia.
  destruct last; cbn [negb andb].
  2:{ cbn [snd]. cw_simpl. rewrite Hw0, Hw1. reflexivity. }
  destruct (cw_end b1 REOF) as [Hw2 Hr2]. destruct (bd_end b1 REOF) as [b2 ev2]. cbn [fst snd] in Hw2, Hr2.
  destruct (cf_lmtp cfg).
  - match goal with |- context [bdat_lmtp_replies ?a ?b ?e] =>
      pose proof (lmtp_replies_count a b e) as Hrs;
      destruct (bdat_lmtp_replies a b e) as [rs pk] end.
    cbn [fst] in Hrs.
    destruct pk; rewrite ?do_close_eq, ?do_reset_eq; cbn [snd]; cw_simpl;
      rewrite ?Hw0, ?Hw1, ?Hw2, ?Hrs, ?Hr2; cbn; lia.
  - match goal with |- context [data_error_to_status ?e] => destruct (data_error_to_status e) as [[code ec] msg] end.
    destruct (bd_panics b2); rewrite ?do_close_eq, ?do_reset_eq; cbn [snd]; cw_simpl;
      rewrite ?Hw0, ?Hw1, ?Hw2; cbn; lia.
Qed.

Lemma cw_cons_wire w l : count_wires (EWire w :: l) = S (count_wires l).
Proof. reflexivity. Qed.

Lemma cw_discard cfg c s : count_wires (discard_ev cfg c s) = 0%nat.
Proof. destruct (discard_cases cfg c s) as [(_ & _ & ->)|(_ & _ & ->)]; [reflexivity|apply cw_close]. Qed.

(* the number of replies handle_bdat writes, branch by branch *)
Definition bdat_reply_count (cfg : config) (c : conn) (arg : bytes) : nat :=
  match bdat_classify cfg c arg with
  | BvNilSession => 0
  | BvAccept _ true => if cf_lmtp cfg then List.length (transfer_rcpts c) else 1
  | _ => 1
  end.

Theorem bdat_replies_counted cfg c arg :
  count_wires (snd (handle_bdat cfg c arg)) = bdat_reply_count cfg c arg.
Proof.
  unfold bdat_reply_count. pose proof (handle_bdat_cases cfg c arg) as Hc.
  destruct (bdat_classify cfg c arg) as [|s|s|s| |s last].
  - destruct Hc as [w ->]. reflexivity.
  - rewrite Hc. cbn [snd]. unfold reply. rewrite cw_cons_wire, cw_discard. reflexivity.
  - rewrite Hc. cbn [snd]. unfold reply. rewrite cw_cons_wire, cw_discard. reflexivity.
  - rewrite Hc. cbn [snd]. cw_simpl. rewrite ?cw_discard. reflexivity.
  - rewrite Hc. reflexivity.
  - rewrite Hc. destruct (t_copy_n s (set_limit (c_t c) 0)) as [[chunk cerr] t1].
    rewrite bdat_fed_count. destruct last; [|reflexivity]. cbn [andb]. reflexivity.
Qed.

(* SMTP: exactly one reply to every BDAT command, in every branch (refused,
   accepted, failed, backend gone, backend panicked: 421) *)
Theorem bdat_one_reply_smtp cfg c arg :
  cf_lmtp cfg = false -> (c_from c = true -> c_session c = true) ->
  count_wires (snd (handle_bdat cfg c arg)) = 1%nat.
Proof.
  intros Hl Hse. rewrite bdat_replies_counted. unfold bdat_reply_count. rewrite Hl.
  destruct (bdat_classify cfg c arg) as [|s|s|s| |s [|]] eqn:E; try reflexivity.
  exfalso. unfold bdat_classify in E.
  destruct (fields arg) as [|a0 [|a1 [|a2 more]]]; try discriminate;
    destruct (parse_uint 32 a0); try discriminate;
    destruct (c_from c); cbn [negb orb] in E; try discriminate;
    destruct (match c_rcpts c with [] => true | _ :: _ => false end); try discriminate;
    destruct (bdat_last_ok _); try discriminate;
    destruct (bdat_over cfg c _); try discriminate;
    rewrite (Hse eq_refl) in E; cbn [negb andb] in E; discriminate.
Qed.

(* LMTP: one reply per recipient of the transfer for an accepted LAST chunk
   (delivered or failed), exactly one in every other branch *)
Theorem bdat_replies_lmtp cfg c arg :
  cf_lmtp cfg = true -> (c_from c = true -> c_session c = true) ->
  count_wires (snd (handle_bdat cfg c arg))
  = match bdat_classify cfg c arg with
    | BvAccept _ true => List.length (transfer_rcpts c)
    | _ => 1%nat
    end.
Proof.
  intros Hl Hse. rewrite bdat_replies_counted. unfold bdat_reply_count. rewrite Hl.
  destruct (bdat_classify cfg c arg) as [|s|s|s| |s [|]] eqn:E; try reflexivity.
  exfalso. unfold bdat_classify in E.
  destruct (fields arg) as [|a0 [|a1 [|a2 more]]]; try discriminate;
    destruct (parse_uint 32 a0); try discriminate;
    destruct (c_from c); cbn [negb orb] in E; try discriminate;
    destruct (match c_rcpts c with [] => true | _ :: _ => false end); try discriminate;
    destruct (bdat_last_ok _); try discriminate;
    destruct (bdat_over cfg c _); try discriminate;
    rewrite (Hse eq_refl) in E; cbn [negb andb] in E; discriminate.
Qed.

(* ====================================================================== *)
(* 10. end-of-file only after a LAST chunk copied in full (C07, BDAT half) *)
(* ====================================================================== *)

Definition not_eof (e : event) : Prop :=
  match e with EDelivery _ (Some REOF) _ _ => False | _ => True end.

Lemma ne_wires l : forallb is_wire l = true -> Forall not_eof l.
Proof.
  induction l as [|e l IH]; intros H; [constructor|].
  cbn in H. apply andb_true_iff in H as [H1 H2]. constructor; [|apply IH, H2].
  destruct e; try discriminate. exact I.
Qed.

Lemma ne_end b t : t <> REOF -> Forall not_eof (snd (bd_end b t)).
Proof.
  intros H. unfold bd_end. destruct (bd_done b); [constructor|]. unfold bd_finish. cbn.
  repeat constructor. destruct t; try exact I. congruence.
Qed.

Lemma ne_new p rc sp : Forall not_eof (snd (bd_new p rc sp)).
Proof. unfold bd_new. destruct (dp_stop p) as [[|k]|]; cbn; repeat constructor. Qed.

Lemma ne_feed b chunk : Forall not_eof (snd (fst (bd_feed b chunk))).
Proof.
  unfold bd_feed. destruct chunk as [|x chunk]; [constructor|].
  destruct (bd_done b); [constructor|].
  destruct (dp_stop (bd_plan b)) as [k|]; [|constructor].
  destruct (take_N _ _) as [[a ?] ?]. destruct (_ <? _); [constructor|].
  unfold bd_finish. destruct (blen (x :: chunk) =? _); cbn; repeat constructor.
Qed.

Lemma ne_abort bd : Forall not_eof (abort_ev bd).
Proof. destruct bd as [b|]; [|constructor]. cbn [abort_ev]. apply ne_end. discriminate. Qed.

(* RSET, QUIT, EHLO, STARTTLS, a failed DATA ..., the end of the connection:
   whatever goes through reset() or Close() aborts a running delivery with
   ErrDataReset, never with end-of-file *)
Lemma ne_reset c : Forall not_eof (reset_ev c).
Proof. unfold reset_ev. apply Forall_app. split; [apply ne_abort|]. destruct (c_session c); repeat constructor. Qed.

Lemma ne_close c : Forall not_eof (close_ev c).
Proof. unfold close_ev. apply Forall_app. split; [apply ne_abort|]. destruct (c_session c); repeat constructor. Qed.

Theorem reset_never_eof c : Forall not_eof (snd (do_reset c)).
Proof. rewrite do_reset_eq. apply ne_reset. Qed.

Theorem close_never_eof c : Forall not_eof (snd (do_close c)).
Proof. rewrite do_close_eq. apply ne_close. Qed.

Lemma rerr_of_copy_not_eof te : rerr_of_copy te <> REOF.
Proof. destruct te; discriminate. Qed.

Lemma bdat_start_ne cfg c : Forall not_eof (snd (fst (bdat_start cfg c))).
Proof.
  unfold bdat_start. destruct (c_bdat c); [constructor|].
  unfold pop_data. destruct (pop dp_default (be_data (c_be c))) as [p rest].
  match goal with |- context [bd_new ?p ?r ?s] =>
    pose proof (ne_new p r s) as H; destruct (bd_new p r s) as [b ev] end.
  exact H.
Qed.

Ltac fne :=
  repeat first
    [ assumption
    | apply ne_reset | apply ne_close | apply ne_abort
    | apply Forall_nil
    | apply Forall_app; split
    | apply Forall_cons; [exact I|] ].

(* unless the chunk is LAST and the copy from the transport obtained all the
   declared octets, no end-of-file reaches the backend *)
Lemma bdat_fed_no_eof cfg c size last chunk cerr t1 :
  last = false \/ cerr <> None ->
  Forall not_eof (snd (bdat_fed cfg c size last chunk cerr t1)).
Proof.
  intros Hcut. unfold bdat_fed. pose proof (bdat_start_ne cfg c) as Hev0.
  destruct (bdat_start cfg c) as [[b0 ev0] c0]. cbn [fst snd] in *.
  pose proof (ne_feed b0 chunk) as Hev1.
  destruct (bd_feed b0 chunk) as [[b1 ev1] werr]. cbn [fst snd] in *.
  destruct werr as [e|]; [|destruct cerr as [te|]].
  1: cbv beta iota zeta.
  2: (cbv beta iota zeta; destruct (t_copy_n (size - blen chunk) t1) as [[dg de] t1d] eqn:Edisc; cbv beta iota zeta).
  1,2: destruct (last && cf_lmtp cfg);
       [ match goal with |- context [bd_end ?b ?pe] =>
           assert (Hev2 : Forall not_eof (snd (bd_end b pe)))
             by (apply ne_end; first [discriminate|apply rerr_of_copy_not_eof]);
           destruct (bd_end b pe) as [b2 ev2] end;
         cbn [fst snd] in Hev2;
         match goal with |- context [bdat_lmtp_replies ?a ?b ?e] =>
           pose proof (ne_wires _ (bdat_lmtp_replies_wires a b e)) as Hrs;
           destruct (bdat_lmtp_replies a b e) as [rs pk] end;
         cbn [fst] in Hrs
       | match goal with |- context [data_error_to_status ?e] => destruct (data_error_to_status e) as [[code ec] msg] end ];
       cbv beta iota zeta;
       match goal with |- context [if ?b then do_close _ else _] => destruct b end;
       rewrite ?do_close_eq; cbv beta iota; rewrite ?do_reset_eq; cbn [snd]; unfold reply; fne.
  destruct Hcut as [-> | Hcut]; [|exfalso; apply Hcut; reflexivity]. cbn [negb snd]. unfold reply. fne.
Qed.

Lemma ne_discard cfg c s : Forall not_eof (discard_ev cfg c s).
Proof. destruct (discard_cases cfg c s) as [(_ & _ & ->)|(_ & _ & ->)]; [constructor|apply ne_close]. Qed.

(* C07, BDAT half: if handle_bdat lets the backend's reader report
   end-of-file, then the command was an accepted BDAT ... LAST and the copy
   from the transport obtained every one of the declared octets *)
Theorem bdat_eof_only_after_full_last cfg c arg got r pn :
  In (EDelivery got (Some REOF) r pn) (snd (handle_bdat cfg c arg)) ->
  exists n chunk t1,
    bdat_classify cfg c arg = BvAccept n true /\
    t_copy_n n (set_limit (c_t c) 0) = (chunk, None, t1) /\ blen chunk = n.
Proof.
  intros Hin.
  assert (Hno : Forall not_eof (snd (handle_bdat cfg c arg)) -> False).
  { intros H. rewrite Forall_forall in H. apply (H _ Hin). }
  pose proof (handle_bdat_cases cfg c arg) as Hc.
  destruct (bdat_classify cfg c arg) as [|s|s|s| |s last].
  - exfalso. apply Hno. destruct Hc as [w ->]. repeat constructor.
  - exfalso. apply Hno. rewrite Hc. cbn [snd]. constructor; [exact I|apply ne_discard].
  - exfalso. apply Hno. rewrite Hc. cbn [snd]. constructor; [exact I|apply ne_discard].
  - exfalso. apply Hno. rewrite Hc. cbn [snd]. unfold reply.
    apply Forall_app. split; [repeat constructor|]. apply Forall_app. split; [apply ne_discard|apply ne_reset].
  - exfalso. apply Hno. rewrite Hc. repeat constructor.
  - destruct (t_copy_n s (set_limit (c_t c) 0)) as [[chunk cerr] t1] eqn:Ecp.
    destruct last; [destruct cerr as [te|]|].
    + exfalso. apply Hno. rewrite Hc. apply bdat_fed_no_eof. right. discriminate.
    + exists s, chunk, t1. split; [reflexivity|]. split; [exact Ecp|].
      apply (t_copy_n_len _ _ _ _ _ Ecp). reflexivity.
    + exfalso. apply Hno. rewrite Hc. apply bdat_fed_no_eof. left. reflexivity.
Qed.

(* the stream ends (connection lost, timeout, error) before the declared
   octets of the chunk have arrived: no end-of-file, whatever the chunk *)
Theorem bdat_cut_never_eof cfg c arg n :
  t_closed (c_t c) = false -> bdat_size_known arg n -> blen (tstream (c_t c)) < n ->
  Forall not_eof (snd (handle_bdat cfg c arg)).
Proof.
  intros Hcl Hk Hn. apply Forall_forall. intros e Hin.
  destruct e as [| | | | | | |got [[]|] r pn| | | | | | | | |]; try exact I.
  destruct (bdat_eof_only_after_full_last cfg c arg got r pn Hin) as (n' & chunk & t1 & Hcls & Hcp & Hlen).
  pose proof (classify_size cfg c arg n Hk) as Hsz. rewrite Hcls in Hsz. clear Hlen. subst n'.
  destruct (copy_n_short (set_limit (c_t c) 0) n) as (t' & Hc & _); [exact Hcl|reflexivity|exact Hn|].
  rewrite Hc in Hcp. discriminate.
Qed.

(* What a failed read inside an accepted chunk consumes, for ANY backend
   plan: the first copy takes everything up to the failing raw read and that
   failure itself ([t1]: nothing buffered, the schedule behind the failure).
   If the backend had gone already (write error) that is all; if it was still
   reading, the handler's discard of the rest of the declared size runs on:
   up to n - obtained further octets, or up to the next failure. *)
Theorem bdat_failed_read_consumed cfg c arg n last :
  bdat_classify cfg c arg = BvAccept n last ->
  t_closed (c_t c) = false -> blen (tstream (c_t c)) < n ->
  let c' := fst (handle_bdat cfg c arg) in
  exists t1 tf,
    t_buf t1 = [] /\ t_raw t1 = raws_after (t_raw (c_t c)) /\ t_closed t1 = false /\ t_limit t1 = 0 /\
    (tf = t1 \/ tf = snd (t_copy_n (n - blen (tstream (c_t c))) t1)) /\
    t_buf (c_t c') = t_buf tf /\ t_raw (c_t c') = t_raw tf /\ t_limit (c_t c') = cf_max_line cfg.
Proof.
  intros Hcls Hcl Hn. pose proof (handle_bdat_cases cfg c arg) as Hc. rewrite Hcls in Hc.
  destruct (copy_n_short (set_limit (c_t c) 0) n) as (t1 & Hcp & Hb1 & Hr1 & Hcl1 & Hl1);
    [exact Hcl|reflexivity|exact Hn|].
  rewrite Hcp in Hc. cbv zeta. rewrite Hc.
  pose proof (bdat_fed_transport cfg c n last (tstream (set_limit (c_t c) 0))
                (Some (tterm (set_limit (c_t c) 0))) t1) as Ht.
  cbv zeta in Ht. destruct Ht as (tf & Htf & Hb & Hr & _ & Hlim & _).
  exists t1, tf. rewrite tstream_set_limit in Htf.
  repeat split; try assumption.
  destruct Htf as [H|[_ H]]; [left|right]; exact H.
Qed.

(* ... and in SMTP mode / on a non-LAST chunk, with a backend that was still
   reading: the reply is 554, the delivery is aborted with ErrDataReset after
   having yielded exactly what had arrived, and the discard has run on behind
   the failing read.  If it found the rest of the declared octets there, the
   transaction is reset and commands resume behind them; if it did not (the
   stream ended, or the read failed again: an expired deadline stays expired),
   the connection is CLOSED. *)
Theorem bdat_chunk_cut cfg c p pan got arg n last :
  transfer_at cfg c p pan got -> dp_stop p = None ->
  bdat_arg arg n last -> within_limit cfg c n -> last && cf_lmtp cfg = false ->
  t_closed (c_t c) = false -> blen (tstream (c_t c)) < n ->
  let '(c', ev) := handle_bdat cfg c arg in
  let r554 := reply 554 (5, 0, 0)%Z
                (bs "Error: transaction failed: "
                 ++ match tterm (c_t c) with TEof => bs "unexpected EOF" | e => terr_text e end) in
  let del := EDelivery (got ++ tstream (c_t c)) (Some RDataReset) (plan_ret p (Some RDataReset)) pan in
  c_bdat c' = None /\ c_received c' = 0%Z /\ c_from c' = false /\ c_rcpts c' = [] /\
  exists t1,
    t_buf t1 = [] /\ t_raw t1 = raws_after (t_raw (c_t c)) /\ t_closed t1 = false /\ t_limit t1 = 0 /\
    match t_copy_n (n - blen (tstream (c_t c))) t1 with
    | (_, None, td) =>
        ev = start_events c ++ [r554; del; EReset] /\ c_closed c' = c_closed c /\
        c_t c' = set_limit td (cf_max_line cfg)
    | (_, Some _, td) =>
        ev = start_events c ++ [r554; del; ELogout; EClose] /\ c_closed c' = true /\
        c_session c' = false /\ c_t c' = set_limit (set_closed td) (cf_max_line cfg)
    end.
Proof.
  intros Ht Hs Ha Hw Hll Hcl Hn.
  pose proof (handle_bdat_cases cfg c arg) as Hc.
  rewrite (classify_accept cfg c p pan got arg n last Ht Ha Hw) in Hc. rewrite Hc.
  destruct (copy_n_short (set_limit (c_t c) 0) n) as (t1 & Hcp & Hb1 & Hr1 & Hcl1 & Hl1);
    [exact Hcl|reflexivity|exact Hn|].
  rewrite Hcp. unfold bdat_fed.
  destruct (bdat_start_at cfg c p pan got Ht Hs) as (be0 & Hb). rewrite Hb.
  rewrite feed_read_all by (cbn; first [assumption|reflexivity]).
  rewrite Hll. rewrite tstream_set_limit, tterm_set_limit.
  destruct (transfer_at_env _ _ _ _ _ Ht) as (H1 & H2 & H3).
  assert (Hst : data_error_to_status (berr_of_rerr (rerr_of_copy (tterm (c_t c))))
                = (554, (5, 0, 0), bs "Error: transaction failed: "
                     ++ match tterm (c_t c) with TEof => bs "unexpected EOF" | e => terr_text e end)%Z).
  { destruct (tterm (c_t c)); reflexivity. }
  rewrite Hst. cbv beta iota zeta.
  destruct (t_copy_n (n - blen (tstream (c_t c))) t1) as [[dg [de|]] t1d] eqn:Edisc;
    cbv beta iota zeta; cbn [orb]; cbv beta iota.
  - (* the discard was short too: Close *)
    rewrite do_close_eq. cbv beta iota. rewrite do_reset_eq. unfold reset_c, reset_ev, close_c, close_ev.
    destruct c as [t ph be h se er bm fr rc da cl tl bd rv]. cs. subst.
    rewrite abort_ev_running by reflexivity. cbn [app fst snd abort_ev].
    repeat (split; [reflexivity|]).
    exists t1. cs. rewrite Edisc. repeat split; assumption.
  - rewrite do_reset_eq. unfold reset_c, reset_ev.
    destruct c as [t ph be h se er bm fr rc da cl tl bd rv]. cs. subst.
    rewrite abort_ev_running by reflexivity. cbn [app fst snd].
    repeat (split; [reflexivity|]).
    exists t1. cs. rewrite Edisc. repeat split; assumption.
Qed.

(* the two outcomes of that discard, at the level of streams: the schedule
   behind the failing read delivers the missing octets - then the commands
   resume right behind them - or it ends first - then the connection is
   closed *)
Corollary bdat_chunk_cut_resume cfg c p pan got arg n last p2 rest' :
  transfer_at cfg c p pan got -> dp_stop p = None ->
  bdat_arg arg n last -> within_limit cfg c n -> last && cf_lmtp cfg = false ->
  t_closed (c_t c) = false -> blen (tstream (c_t c)) < n ->
  raws_bytes (raws_after (t_raw (c_t c))) = p2 ++ rest' ->
  blen p2 = n - blen (tstream (c_t c)) ->
  tstream (c_t (fst (handle_bdat cfg c arg))) = rest' /\
  t_limit (c_t (fst (handle_bdat cfg c arg))) = cf_max_line cfg /\
  c_closed (fst (handle_bdat cfg c arg)) = c_closed c.
Proof.
  intros Ht Hs Ha Hw Hll Hcl Hn Hs2 Hp2.
  pose proof (bdat_chunk_cut cfg c p pan got arg n last Ht Hs Ha Hw Hll Hcl Hn) as H.
  destruct (handle_bdat cfg c arg) as [c' ev]. cbn [fst]. cbv zeta in H.
  destruct H as (_ & _ & _ & _ & t1 & Hb1 & Hr1 & Hcl1 & Hl1 & H).
  destruct (copy_n_exact t1 (n - blen (tstream (c_t c))) p2 rest') as (t2 & Hcp & Hr2 & _);
    [exact Hcl1|exact Hl1| |exact Hp2|].
  { unfold tstream at 1. rewrite Hb1, Hr1. exact Hs2. }
  rewrite Hcp in H. destruct H as (_ & Hclosed & Hct).
  rewrite Hct. split; [exact Hr2|]. split; [reflexivity|exact Hclosed].
Qed.

Corollary bdat_chunk_cut_again cfg c p pan got arg n last :
  transfer_at cfg c p pan got -> dp_stop p = None ->
  bdat_arg arg n last -> within_limit cfg c n -> last && cf_lmtp cfg = false ->
  t_closed (c_t c) = false -> blen (tstream (c_t c)) < n ->
  blen (raws_bytes (raws_after (t_raw (c_t c)))) < n - blen (tstream (c_t c)) ->
  t_buf (c_t (fst (handle_bdat cfg c arg))) = [] /\
  t_raw (c_t (fst (handle_bdat cfg c arg))) = raws_after (raws_after (t_raw (c_t c))) /\
  c_closed (fst (handle_bdat cfg c arg)) = true /\
  t_closed (c_t (fst (handle_bdat cfg c arg))) = true /\
  c_session (fst (handle_bdat cfg c arg)) = false.
Proof.
  intros Ht Hs Ha Hw Hll Hcl Hn Hs2.
  pose proof (bdat_chunk_cut cfg c p pan got arg n last Ht Hs Ha Hw Hll Hcl Hn) as H.
  destruct (handle_bdat cfg c arg) as [c' ev]. cbn [fst]. cbv zeta in H.
  destruct H as (_ & _ & _ & _ & t1 & Hb1 & Hr1 & Hcl1 & Hl1 & H).
  destruct (copy_n_short t1 (n - blen (tstream (c_t c)))) as (t2 & Hcp & Hb2 & Hr2 & _);
    [exact Hcl1|exact Hl1| |].
  { unfold tstream at 1. rewrite Hb1, Hr1. exact Hs2. }
  rewrite Hcp in H. destruct H as (_ & Hclosed & Hsess & Hct).
  rewrite Hct. cbn [set_limit set_closed t_buf t_raw t_closed]. rewrite <- Hr1.
  repeat split; assumption.
Qed.

(* ---------------------------------------------------------------------- *)
(* A chunk that could not be read completely closes the connection (F30)   *)
(* ---------------------------------------------------------------------- *)

(* at the level of bdat_fed: the copy stopped at a failing read, and the
   discard behind it - which runs only if the backend was still reading -
   would not obtain the rest either *)
Lemma bdat_fed_short_closes cfg c size last chunk te t1 :
  snd (fst (t_copy_n (size - blen chunk) t1)) <> None ->
  let c' := fst (bdat_fed cfg c size last chunk (Some te) t1) in
  c_closed c' = true /\ t_closed (c_t c') = true /\ c_session c' = false /\ c_bdat c' = None.
Proof.
  intros Hshort. unfold bdat_fed. destruct (bdat_start_c cfg c) as [be0 Hc0].
  destruct (bdat_start cfg c) as [[b0 ev0] c0]. cbn [snd] in Hc0. subst c0.
  destruct (bd_feed b0 chunk) as [[b1 ev1] werr].
  destruct c as [t ph be h se er bm fr rc da cl tl bd rv]. cs.
  destruct werr as [e|].
  1: cbv beta iota zeta.
  2: (cbv beta iota zeta; destruct (t_copy_n (size - blen chunk) t1) as [[dg [de|]] t1d];
      [|exfalso; apply Hshort; reflexivity]; cbv beta iota zeta).
  1,2: destruct (last && cf_lmtp cfg);
       [ match goal with |- context [bd_end ?b ?pe] => destruct (bd_end b pe) as [b2 ev2] end;
         match goal with |- context [bdat_lmtp_replies ?a ?b ?e] => destruct (bdat_lmtp_replies a b e) as [rs pk] end
       | match goal with |- context [data_error_to_status ?e] => destruct (data_error_to_status e) as [[code ec] msg] end ];
       cbv beta iota zeta; rewrite ?orb_true_r; cbv beta iota;
       rewrite do_close_eq; cbv beta iota; rewrite do_reset_eq; cbn; auto.
Qed.

(* An ACCEPTED chunk, any backend plan, SMTP or LMTP, LAST or not: the stream
   ends or a read fails before the declared octets have arrived, and what the
   schedule delivers behind that failure (before it ends or fails again) does
   not complete the chunk either - in particular: end of the stream (sticky),
   or an expired read deadline (every read fails until the command loop arms
   it again).  Then the connection is closed: the transport is shut, the
   session logged out, and the command loop stops (C08: nothing is read,
   executed or answered after the first Close). *)
Theorem bdat_incomplete_chunk_closes cfg c arg n last :
  bdat_classify cfg c arg = BvAccept n last ->
  t_closed (c_t c) = false -> blen (tstream (c_t c)) < n ->
  blen (raws_bytes (raws_after (t_raw (c_t c)))) < n - blen (tstream (c_t c)) ->
  let c' := fst (handle_bdat cfg c arg) in
  c_closed c' = true /\ t_closed (c_t c') = true /\ c_session c' = false /\ c_bdat c' = None.
Proof.
  intros Hcls Hcl Hn Hn2. pose proof (handle_bdat_cases cfg c arg) as Hc. rewrite Hcls in Hc.
  destruct (copy_n_short (set_limit (c_t c) 0) n) as (t1 & Hcp & Hb1 & Hr1 & Hcl1 & Hl1);
    [exact Hcl|reflexivity|exact Hn|].
  rewrite Hcp in Hc. cbv zeta. rewrite Hc.
  apply bdat_fed_short_closes.
  rewrite tstream_set_limit.
  destruct (copy_n_short t1 (n - blen (tstream (c_t c)))) as (t2 & Hcp2 & _); [exact Hcl1|exact Hl1| |].
  { unfold tstream at 1. rewrite Hb1, Hr1. exact Hn2. }
  rewrite Hcp2. discriminate.
Qed.

(* A REFUSED chunk (no envelope, bad LAST token, over the limit): the stream
   ends or a read fails before the declared octets have been skipped: closed. *)
Theorem bdat_incomplete_refused_closes cfg c arg n :
  match bdat_classify cfg c arg with
  | BvNoEnvelope s | BvBadLast s | BvOverLimit s => s = n
  | _ => False
  end ->
  t_closed (c_t c) = false -> blen (tstream (c_t c)) < n ->
  let c' := fst (handle_bdat cfg c arg) in
  c_closed c' = true /\ t_closed (c_t c') = true /\ c_session c' = false /\ c_bdat c' = None.
Proof.
  intros Hcls Hcl Hn. pose proof (handle_bdat_cases cfg c arg) as Hc.
  destruct (bdat_refusal_short cfg c n Hcl Hn) as (H1 & H2 & H3 & H4 & _).
  destruct (bdat_classify cfg c arg) as [|s|s|s| |s l]; try contradiction; subst s; cbv zeta; rewrite Hc; cbn [fst].
  - auto.
  - auto.
  - unfold reset_c. cbn. auto.
Qed.

(* ====================================================================== *)
(* 11. the dispatcher, and concrete instances (non-vacuity)                *)
(* ====================================================================== *)

(* the command word BDAT (any case) reaches handle_bdat with the state the
   line reader left *)
Lemma handle_dispatch_bdat cfg c cmd arg :
  to_upper cmd = bs "BDAT" -> handle cfg c cmd arg = handle_bdat cfg c arg.
Proof.
  intros H. unfold handle. destruct cmd as [|x cmd]; [discriminate|]. rewrite H. reflexivity.
Qed.

Definition is_delivery (e : event) : bool := match e with EDelivery _ _ _ _ => true | _ => false end.
Definition cmd_lines (ev : list event) : list bytes :=
  flat_map (fun e => match e with ECmd l => [l] | _ => [] end) ev.
Definition wire_codes (ev : list event) : list bytes :=
  flat_map (fun e => match e with EWire w => [firstn 3 w] | _ => [] end) ev.

Definition xln (s : string) : bytes := bs s ++ crlf.
Definition xraw (b : bytes) : raw := match b with c :: d => RData c d | [] => RFail TEof end.

(* cut a stream into raw reads of the given lengths (the rest in one read) *)
Fixpoint seg (lens : list nat) (s : bytes) : list raw :=
  match lens with
  | [] => match s with [] => [] | _ => [xraw s] end
  | n :: r => xraw (firstn n s) :: seg r (skipn n s)
  end.

(* one octet per raw read *)
Definition seg1 (s : bytes) : list raw := map (fun c => RData c []) s.

Definition ex_cfg (max_bytes : Z) (max_line : N) : config :=
  mkCfg false false (bs "mx") 0 max_bytes max_line true false false false false false false None false.
Definition ex_be : backend := mkBE [] [] [] [] [].

(* 7 octets holding the DATA end marker, then NUL, 0xFF and a lone dot *)
Definition ex_p1 : bytes := bs "a" ++ crlf ++ bs "." ++ crlf ++ bs "b".
Definition ex_p2 : bytes := [NUL; "255"%char; "."%char].

Definition ex_stream : bytes :=
  xln "EHLO x" ++ xln "MAIL FROM:<a@b>" ++ xln "RCPT TO:<c@d>"
  ++ xln "BDAT 7" ++ ex_p1 ++ xln "bdat 3 last" ++ ex_p2 ++ xln "NOOP" ++ xln "QUIT".

(* A two-chunk transfer run through the whole server loop, on three
   segmentations: everything in one read; cuts inside the first payload
   (after "a CR", after "LF .", after "CR") and between NUL and 0xFF of the
   second; one octet per read.  Same trace each time: one delivery with
   exactly the 10 payload octets and end-of-file, replies 250/250/250 to
   MAIL/RCPT/BDAT, 250 to BDAT LAST, and the next command is NOOP. *)
Example bdat_two_chunks_witness :
  let run sg := serve 20 (ex_cfg 0 2000) ex_be [sg ex_stream] in
  let tr := run (seg []) in
  filter is_delivery tr = [EDelivery (ex_p1 ++ ex_p2) (Some REOF) BNil false] /\
  cmd_lines tr = [bs "EHLO x"; bs "MAIL FROM:<a@b>"; bs "RCPT TO:<c@d>"; bs "BDAT 7";
                  bs "bdat 3 last"; bs "NOOP"; bs "QUIT"] /\
  wire_codes tr = map bs ["220"; "250"; "250"; "250"; "250"; "250"; "250"; "221"]%string /\
  run (seg [50; 2; 1; 16]%nat) = tr /\ run seg1 = tr /\
  ~ In EOutOfFuel tr.
Proof.
  vm_compute. repeat split; try reflexivity.
  intros H. repeat (destruct H as [H|H]; [discriminate|]). exact H.
Qed.

(* the same at the level of the handler, from a state with bytes both in the
   bufio buffer and in future raw reads and an arbitrary limiter counter:
   after each chunk conn_read_line returns the line that follows it *)
Definition ex_conn (t : transport) : conn :=
  mkC t [] ex_be (bs "x") true 0 false true [bs "c@d"] false false false None 0.

Example bdat_handler_witness :
  let t := mkT (bs "a" ++ [CR])
               [RData LF (bs "." ++ [CR]); RData LF (bs "b" ++ xln "BDAT 3 LAST" ++ [NUL]);
                RData "255"%char (bs "." ++ xln "NOOP")] 1999 2000 false in
  let cfg := ex_cfg 0 2000 in
  let '(c1, ev1) := handle_bdat cfg (ex_conn t) (bs "7") in
  let '(l1, c1') := conn_read_line c1 in
  let '(c2, ev2) := handle_bdat cfg c1' (bs "3 LAST") in
  let '(l2, c2') := conn_read_line c2 in
  tstream t = ex_p1 ++ xln "BDAT 3 LAST" ++ ex_p2 ++ xln "NOOP" /\
  ev1 = [EBdatStart; continue_reply] /\ l1 = inl (bs "BDAT 3 LAST") /\
  ev2 = [EDelivery (ex_p1 ++ ex_p2) (Some REOF) BNil false;
         reply 250 (2, 0, 0)%Z (bs "OK: queued"); EReset] /\
  l2 = inl (bs "NOOP") /\ tstream (c_t c2') = [].
Proof. vm_compute. repeat split; reflexivity. Qed.

(* BDAT without MAIL: 502, and the declared 17 octets - a MAIL command - are
   discarded, not executed: no Mail event, the next command is NOOP; on every
   segmentation *)
Definition ex_refused : bytes :=
  xln "EHLO x" ++ xln "BDAT 17" ++ xln "MAIL FROM:<x@y>" ++ xln "NOOP" ++ xln "QUIT".

Example bdat_refused_witness :
  let run sg := serve 20 (ex_cfg 0 2000) ex_be [sg ex_refused] in
  let tr := run (seg []) in
  cmd_lines tr = [bs "EHLO x"; bs "BDAT 17"; bs "NOOP"; bs "QUIT"] /\
  wire_codes tr = map bs ["220"; "250"; "502"; "250"; "221"]%string /\
  existsb (fun e => match e with EMail _ _ _ => true | _ => false end) tr = false /\
  run (seg [20; 5]%nat) = tr /\ run seg1 = tr /\
  (let '(c1, ev1) := handle_bdat (ex_cfg 0 2000)
       (mkC (mkT (bs "MAIL FR") [xraw (bs "OM:<x@y>" ++ crlf ++ xln "NOOP")] 7 2000 false)
            [] ex_be (bs "x") true 0 false false [] false false false None 0) (bs "17") in
   ev1 = [reply 502 (5, 5, 1)%Z (bs "Missing RCPT TO command.")] /\
   fst (conn_read_line c1) = inl (bs "NOOP")).
Proof. vm_compute. repeat split; reflexivity. Qed.

(* over the size limit: 10 octets allowed, 7 + 4 offered: the second chunk
   gets 552, its octets are skipped, the delivery is aborted (never EOF) *)
Example bdat_over_limit_witness :
  let s := xln "EHLO x" ++ xln "MAIL FROM:<a@b>" ++ xln "RCPT TO:<c@d>"
           ++ xln "BDAT 7" ++ ex_p1 ++ xln "BDAT 4 LAST" ++ bs "QUIT" ++ xln "NOOP" ++ xln "QUIT" in
  let tr := serve 20 (ex_cfg 10 2000) ex_be [seg [] s] in
  filter is_delivery tr = [EDelivery ex_p1 (Some RDataReset) (berr_of_rerr RDataReset) false] /\
  cmd_lines tr = [bs "EHLO x"; bs "MAIL FROM:<a@b>"; bs "RCPT TO:<c@d>"; bs "BDAT 7";
                  bs "BDAT 4 LAST"; bs "NOOP"; bs "QUIT"] /\
  wire_codes tr = map bs ["220"; "250"; "250"; "250"; "250"; "552"; "250"; "221"]%string.
Proof. vm_compute. repeat split; reflexivity. Qed.

(* No line-length limit inside a chunk - and the boundary of these theorems
   (finding F6).  MaxLineLength 10, a chunk of 30 octets without LF:
   * arriving in raw reads of its own (after the command line has been
     parsed) it is delivered;
   * arriving in the same raw read as its BDAT line it passes the limiter
     while the line limit is still on: 500 and the connection is closed
     before BDAT is parsed.  The theorems of this file speak about the state
     after the command line has been read and do not cover that. *)
Example bdat_line_limit_boundary :
  let x30 := repeat "x"%char 30 in
  let pre := xln "EHLO x" ++ xln "MAIL FROM:<a@b>" ++ xln "RCPT TO:<c@d>" in
  let cfg := mkCfg false false (bs "mx") 0 0 20 true false false false false false false None false in
  let good := serve 20 cfg ex_be
                [[xraw (xln "EHLO x"); xraw (xln "MAIL FROM:<a@b>"); xraw (xln "RCPT TO:<c@d>");
                  xraw (xln "BDAT 30 LAST"); xraw x30; xraw (xln "QUIT")]] in
  let f6 := serve 20 cfg ex_be
                [[xraw (xln "EHLO x"); xraw (xln "MAIL FROM:<a@b>"); xraw (xln "RCPT TO:<c@d>");
                  xraw (xln "BDAT 30 LAST" ++ x30); xraw (xln "QUIT")]] in
  filter is_delivery good = [EDelivery x30 (Some REOF) BNil false] /\
  wire_codes good = map bs ["220"; "250"; "250"; "250"; "250"; "221"]%string /\
  filter is_delivery f6 = [] /\
  wire_codes f6 = map bs ["220"; "250"; "250"; "250"; "500"]%string.
Proof. vm_compute. repeat split; reflexivity. Qed.

(* ====================================================================== *)
(* 12. segmentation independence of the handler, for EVERY backend plan    *)
(* ====================================================================== *)

(* c2 is c1 with another transport *)
Definition same_but_t (c1 c2 : conn) : Prop := c2 = upd_t c1 (c_t c2).

Lemma classify_upd_t cfg c t arg : bdat_classify cfg (upd_t c t) arg = bdat_classify cfg c arg.
Proof. destruct c; reflexivity. Qed.

Lemma bdat_start_upd_t cfg c t :
  fst (bdat_start cfg (upd_t c t)) = fst (bdat_start cfg c) /\
  forall t1, upd_t (snd (bdat_start cfg (upd_t c t))) t1 = upd_t (snd (bdat_start cfg c)) t1.
Proof.
  unfold bdat_start. destruct c as [t0 ph be h se er bm fr rc da cl tl bd rv]. cs.
  destruct bd; [split; reflexivity|].
  unfold pop_data. cs. destruct (pop dp_default (be_data be)) as [p rest]. cs.
  destruct (bd_new _ _ _). split; reflexivity.
Qed.

(* the handler's work after a complete copy does not look at the transport
   the connection had, and passes the one the copy left through unchanged *)
Lemma bdat_fed_t_indep cfg c t2 s l ch t1 t1' :
  snd (bdat_fed cfg (upd_t c t2) s l ch None t1') = snd (bdat_fed cfg c s l ch None t1) /\
  same_but_t (fst (bdat_fed cfg c s l ch None t1)) (fst (bdat_fed cfg (upd_t c t2) s l ch None t1')).
Proof.
  unfold bdat_fed, same_but_t. destruct (bdat_start_upd_t cfg c t2) as [Hf Hs].
  destruct (bdat_start cfg (upd_t c t2)) as [[b0' ev0'] c0'].
  destruct (bdat_start cfg c) as [[b0 ev0] c0]. cbn [fst snd] in *. inversion Hf; subst b0' ev0'.
  assert (Hc0 : c0' = upd_t c0 (c_t c0')).
  { specialize (Hs (c_t c0')). destruct c0'; exact Hs. }
  rewrite Hc0. generalize (c_t c0'). intros t0'. clear Hs Hc0 Hf.
  destruct (bd_feed b0 ch) as [[b1 ev1] werr].
  destruct c0 as [t ph be h se er bm fr rc da cl tl bd rv]. cs.
  destruct werr as [e|].
  1: cbv beta iota zeta.
  1: destruct (l && cf_lmtp cfg);
       [ match goal with |- context [bd_end ?b ?pe] => destruct (bd_end b pe) as [b2 ev2] end;
         match goal with |- context [bdat_lmtp_replies ?a ?b ?e] => destruct (bdat_lmtp_replies a b e) as [rs pk] end
       | match goal with |- context [data_error_to_status ?e] => destruct (data_error_to_status e) as [[code ec] msg] end ];
       cbv beta iota zeta;
       match goal with |- context [if ?b then do_close _ else _] => destruct b end;
       rewrite ?do_close_eq; cbv beta iota; rewrite ?do_reset_eq; cbn; split; reflexivity.
  destruct l; cbn [negb].
  2:{ cbn. split; reflexivity. }
  destruct (bd_end b1 REOF) as [b2 ev2].
  destruct (cf_lmtp cfg).
  - match goal with |- context [bdat_lmtp_replies ?a ?b ?e] => destruct (bdat_lmtp_replies a b e) as [rs pk] end.
    destruct pk; rewrite ?do_close_eq, ?do_reset_eq; cbn; split; reflexivity.
  - match goal with |- context [data_error_to_status ?e] => destruct (data_error_to_status e) as [[code ec] msg] end.
    destruct (bd_panics b2); rewrite ?do_close_eq, ?do_reset_eq; cbn; split; reflexivity.
Qed.

(* Two connection states that differ only in how the same stream is held
   (buffered part, raw reads, limiter counter): same events - replies and
   everything the backend sees, for ANY backend behaviour - same state apart
   from the transport, and both transports stand behind the chunk. *)
Theorem bdat_segmentation_independent cfg c t2 arg n payload rest :
  t_closed (c_t c) = false -> t_closed t2 = false ->
  (c_from c = true -> c_session c = true) ->
  bdat_size_known arg n ->
  tstream (c_t c) = payload ++ rest -> tstream t2 = payload ++ rest -> blen payload = n ->
  let '(c1, ev1) := handle_bdat cfg c arg in
  let '(c2, ev2) := handle_bdat cfg (upd_t c t2) arg in
  ev2 = ev1 /\ same_but_t c1 c2 /\ tstream (c_t c1) = rest /\ tstream (c_t c2) = rest.
Proof.
  intros Hcl1 Hcl2 Hse Hk Hs1 Hs2 Hn.
  pose proof (classify_size cfg c arg n Hk) as Hsz.
  pose proof (handle_bdat_cases cfg c arg) as Hc1.
  pose proof (handle_bdat_cases cfg (upd_t c t2) arg) as Hc2. rewrite classify_upd_t in Hc2.
  assert (Hcl2' : t_closed (c_t (upd_t c t2)) = false) by (destruct c; exact Hcl2).
  assert (Hs2' : tstream (c_t (upd_t c t2)) = payload ++ rest) by (destruct c; exact Hs2).
  destruct (discard_chunk_resume cfg c n payload rest Hcl1 Hs1 Hn) as (td1 & Hd1 & Hr1 & _).
  destruct (discard_chunk_resume cfg (upd_t c t2) n payload rest Hcl2' Hs2' Hn) as (td2 & Hd2 & Hr2 & _).
  destruct (bdat_classify cfg c arg) as [|s|s|s| |s last]; try subst s.
  - contradiction.
  - rewrite Hc1, Hc2. unfold discard_c, discard_ev. rewrite Hd1, Hd2. unfold same_but_t. destruct c; cs. auto.
  - rewrite Hc1, Hc2. unfold discard_c, discard_ev. rewrite Hd1, Hd2. unfold same_but_t. destruct c; cs. auto.
  - rewrite Hc1, Hc2. unfold discard_c, discard_ev. rewrite Hd1, Hd2. unfold same_but_t. destruct c; cbn. auto.
  - destruct Hsz as (H1 & H2 & _). rewrite (Hse H2) in H1. discriminate.
  - rewrite Hc1, Hc2.
    destruct (copy_n_exact (set_limit (c_t c) 0) n payload rest) as (t1 & Hcp1 & Hrr1 & _);
      [exact Hcl1|reflexivity|exact Hs1|exact Hn|].
    destruct (copy_n_exact (set_limit (c_t (upd_t c t2)) 0) n payload rest) as (t1' & Hcp2 & Hrr2 & _);
      [exact Hcl2'|reflexivity|exact Hs2'|exact Hn|].
    rewrite Hcp1, Hcp2.
    destruct (bdat_fed_t_indep cfg c t2 n last payload t1 t1') as [He Hsame].
    pose proof (bdat_fed_transport cfg c n last payload None t1) as Ht1.
    pose proof (bdat_fed_transport cfg (upd_t c t2) n last payload None t1') as Ht2.
    destruct (bdat_fed cfg c n last payload None t1) as [c1 ev1].
    destruct (bdat_fed cfg (upd_t c t2) n last payload None t1') as [c2 ev2].
    cbn [fst snd] in *. cbv zeta in Ht1, Ht2.
    destruct Ht1 as (tf1 & Htf1 & Hb1 & Hw1 & _). destruct Ht2 as (tf2 & Htf2 & Hb2 & Hw2 & _).
    destruct Htf1 as [-> | [Hx _]]; [|exfalso; apply Hx; reflexivity].
    destruct Htf2 as [-> | [Hx _]]; [|exfalso; apply Hx; reflexivity].
    split; [exact He|]. split; [exact Hsame|].
    unfold tstream in *. rewrite Hb1, Hw1, Hb2, Hw2. split; assumption.
Qed.

(* ====================================================================== *)
(* 13. the hypotheses of the theorems are satisfiable (non-vacuity)        *)
(* ====================================================================== *)

Example bdat_arg_witness :
  bdat_arg (bs "7") 7 false /\ bdat_arg (bs " 3   lAsT ") 3 true /\ bdat_arg (bs "0 LAST") 0 true /\
  bdat_size_known (bs "17 FIRST") 17 /\ (~ exists n, bdat_size_known (bs "4294967296") n) /\
  (~ exists n, bdat_size_known (bs "1 2 3") n).
Proof.
  repeat split.
  - exists (bs "7"), []. vm_compute. repeat split; try reflexivity; try lia.
  - exists (bs "3"), [bs "lAsT"]. vm_compute. repeat split; try reflexivity; try lia.
  - exists (bs "0"), [bs "LAST"]. vm_compute. repeat split; try reflexivity; try lia.
  - exists (bs "17"), [bs "FIRST"]. vm_compute. repeat split; try reflexivity; try lia.
  - intros (n & a0 & more & Hf & _ & Hp). vm_compute in Hf. inversion Hf; subst. vm_compute in Hp. discriminate.
  - intros (n & a0 & more & Hf & Hl & _). vm_compute in Hf. inversion Hf; subst. cbn in Hl. lia.
Qed.

(* the state after EHLO/MAIL/RCPT satisfies [transfer_at]; two steps with
   transports that hold the payloads partly buffered, partly in raw reads
   satisfy [step_ok]; the conclusion of bdat_transfer_exact for them is the
   expected trace *)
Definition ex_t1 : transport :=
  mkT (bs "a" ++ [CR]) [RData LF (bs "." ++ [CR]); RData LF (bs "b" ++ xln "BDAT 3 LAST")] 1999 2000 false.
Definition ex_t2 : transport :=
  mkT [NUL] [RData "255"%char []; RData "."%char (xln "NOOP")] 0 2000 false.

Example bdat_transfer_exact_witness :
  let cfg := ex_cfg 10 2000 in
  let c := ex_conn (mkT [] [] 0 2000 false) in
  let steps := [mkStep (bs "7") ex_t1 ex_p1 (xln "BDAT 3 LAST")] in
  let final := mkStep (bs "3 LAST") ex_t2 ex_p2 (xln "NOOP") in
  dp_stop dp_default = None /\
  Forall (step_ok false) steps /\ step_ok true final /\
  transfer_at cfg c dp_default false [] /\
  (Z.of_N (blen (@nil ascii) + blen (List.concat (map st_payload steps)) + blen (st_payload final))
   <= cf_max_bytes cfg)%Z /\
  snd (bdat_seq cfg c (steps ++ [final]))
  = [EBdatStart; continue_reply; EDelivery (ex_p1 ++ ex_p2) (Some REOF) BNil false;
     reply 250 (2, 0, 0)%Z (bs "OK: queued"); EReset].
Proof.
  cbv zeta. split; [reflexivity|]. split; [|split; [|split; [|split]]].
  - repeat constructor. exists (bs "7"), []. vm_compute. repeat split; try reflexivity; try lia.
  - repeat split. exists (bs "3"), [bs "LAST"]. vm_compute. repeat split; try reflexivity; try lia.
  - left. vm_compute. repeat split; try reflexivity. discriminate.
  - vm_compute. discriminate.
  - vm_compute. reflexivity.
Qed.

(* a read failure (timeout) inside an accepted chunk of 7: 3 octets arrive,
   the read fails, the 4 missing octets and the next command arrive later.
   554, the delivery sees the 3 octets and ErrDataReset, the discard skips
   the 4 late octets, the next command is NOOP *)
Example bdat_failed_read_witness :
  let t := mkT (bs "ab") [RData "c"%char []; RFail TTimeout; RData "d"%char (bs "ef"); xraw (bs "g" ++ xln "NOOP")]
               5 2000 false in
  let '(c1, ev1) := handle_bdat (ex_cfg 0 2000) (ex_conn t) (bs "7") in
  blen (tstream t) < 7 /\
  raws_bytes (raws_after (t_raw t)) = bs "defg" ++ xln "NOOP" /\
  ev1 = [EBdatStart;
         reply 554 (5, 0, 0)%Z (bs "Error: transaction failed: verif: i/o timeout");
         EDelivery (bs "abc") (Some RDataReset) (berr_of_rerr RDataReset) false; EReset] /\
  fst (conn_read_line c1) = inl (bs "NOOP").
Proof. vm_compute. repeat split; reflexivity. Qed.

(* ====================================================================== *)
(* 14. the size limit over a whole connection (C06, BDAT half)             *)
(* ====================================================================== *)

Section Run.
Variable cfg : config.
Hypothesis HN : (0 < cf_max_bytes cfg)%Z.

(* the invariant between two commands *)
Definition J (c : conn) : Prop := bdat_bounded c /\ (c_received c <= cf_max_bytes cfg)%Z.

Definition BGood (c : conn) (r : hres) : Prop :=
  J c -> J (fst r) /\ Forall (ev_bounded (cf_max_bytes cfg)) (snd r).

Ltac csb :=
  cbn [c_t c_phases c_be c_helo c_session c_errs c_binarymime c_from c_rcpts c_did_auth c_closed
       c_tls c_bdat c_received upd_t upd_be upd_helo upd_session upd_errs upd_binarymime upd_from
       upd_rcpts upd_did_auth upd_bdat upd_received fst snd reset_c close_c] in *.

Ltac inner x :=
  lazymatch x with
  | match ?y with _ => _ end => inner y
  | _ => destruct x eqn:?
  end.
Ltac brk :=
  first
  [ rewrite do_reset_eq; cbv beta iota zeta
  | rewrite do_close_eq; cbv beta iota zeta
  | match goal with
    | |- BGood _ (match ?x with _ => _ end) => inner x; cbv beta iota zeta
    end ].

Lemma auth_events_bounded N l : forallb is_auth_ev l = true -> Forall (ev_bounded N) l.
Proof.
  induction l as [|e l IH]; intros H; [constructor|].
  cbn in H. apply andb_true_iff in H as [H1 H2]. constructor; [|apply IH, H2].
  destruct e; try discriminate; exact I.
Qed.

Lemma status_replies_bounded1 N (f : bytes -> berr) l :
  Forall (ev_bounded N) (map (fun a => status_reply a (f a)) l).
Proof. apply wires_bounded, forallb_map_status_reply. Qed.

Lemma status_replies_bounded2 N (l : list (bytes * berr)) :
  Forall (ev_bounded N) (map (fun '(a, e) => status_reply a e) l).
Proof. apply wires_bounded, forallb_map_status_reply2. Qed.

Ltac bev Hb :=
  unfold reply, reply_err, syntax_mail, syntax_rcpt;
  repeat first
    [ assumption
    | apply Forall_nil
    | apply status_replies_bounded2
    | apply (status_replies_bounded1 _ (fun _ => _))
    | apply auth_events_bounded; assumption
    | apply reset_bounded; csb; intros ?b ?Hbe; first [discriminate | specialize (Hb _ Hbe); lia]
    | apply close_bounded; csb; intros ?b ?Hbe; first [discriminate | specialize (Hb _ Hbe); lia]
    | apply Forall_app; split
    | apply Forall_cons; [exact I|]
    | match goal with |- context [if ?b then [?e] else []] => destruct b end ].

Ltac bleaf :=
  repeat match goal with
  | H : auth_loop ?s ?c ?r = (?c2, ?ev, ?ok) |- _ =>
      let H1 := fresh "Hal" in
      pose proof (auth_loop_spec s c r) as H1; rewrite H in H1; cbn [fst snd] in H1;
      destruct H1 as [?Hc2 ?Hev]; clear H
  end;
  repeat match goal with H : ?c2 = upd_t _ (c_t ?c2) |- _ => rewrite H; clear H end;
  unfold BGood, J, bdat_bounded; csb;
  let Hrv := fresh "Hrv" in let Hb := fresh "Hb" in let HrvN := fresh "HrvN" in
  intros [[Hrv Hb] HrvN];
  split;
  [ split; [split; [lia|first [exact Hb|discriminate]]|lia]
  | bev Hb ].

Ltac bstart c :=
  destruct c as [t ph be h se er bm fr rc da cl tl bd rv]; csb.

Lemma handle_greet_bounded c enh arg : BGood c (handle_greet cfg c enh arg).
Proof. bstart c. unfold handle_greet. csb. cbv zeta. repeat brk; csb; bleaf. Qed.

Lemma handle_mail_bounded c arg : BGood c (handle_mail cfg c arg).
Proof. bstart c. unfold handle_mail, pop_mail. csb. cbv zeta. repeat brk; csb; bleaf. Qed.

Lemma handle_rcpt_bounded c arg : BGood c (handle_rcpt cfg c arg).
Proof. bstart c. unfold handle_rcpt, pop_rcpt. csb. cbv zeta. repeat brk; csb; bleaf. Qed.

Lemma protocol_error_bounded c code ec msg : BGood c (protocol_error c code ec msg).
Proof. bstart c. unfold protocol_error. csb. cbv zeta. repeat brk; csb; bleaf. Qed.

Lemma handle_auth_bounded c arg : BGood c (handle_auth cfg c arg).
Proof. bstart c. unfold handle_auth, pop_auth. csb. cbv zeta. repeat brk; csb; bleaf. Qed.

Lemma handle_data_bounded c arg : BGood c (handle_data cfg c arg).
Proof. bstart c. unfold handle_data, pop_data, close_unless. csb. cbv zeta. repeat brk; csb; bleaf. Qed.

Lemma handle_starttls_bounded c : BGood c (handle_starttls cfg c).
Proof. bstart c. unfold handle_starttls. csb. cbv zeta. repeat brk; csb; bleaf. Qed.

Lemma handle_bdat_bounded c arg : BGood c (handle_bdat cfg c arg).
Proof.
  intros [Hb HrvN]. pose proof (bdat_limit_invariant cfg c arg HN Hb HrvN) as H.
  destruct (handle_bdat cfg c arg) as [c' ev]. destruct H as (H1 & H2 & H3).
  split; [split; assumption|exact H3].
Qed.

Lemma handle_bounded c cmd arg : BGood c (handle cfg c cmd arg).
Proof.
  unfold handle.
  destruct cmd as [|c0 cmd]; [apply protocol_error_bounded|].
  set (CMD := to_upper (c0 :: cmd)). clearbody CMD.
  repeat match goal with
         | |- BGood _ (if ?b then _ else _) => destruct b
         end;
    try (apply handle_greet_bounded);
    try (apply handle_mail_bounded);
    try (apply handle_rcpt_bounded);
    try (apply handle_bdat_bounded);
    try (apply handle_data_bounded);
    try (apply handle_auth_bounded);
    try (apply handle_starttls_bounded);
    try (apply protocol_error_bounded);
    try (intros HJ; split; [exact HJ|repeat constructor]).
  - rewrite do_reset_eq. bstart c. bleaf.
  - rewrite do_close_eq. bstart c. bleaf.
Qed.

Lemma final_close_bounded c : J c -> Forall (ev_bounded (cf_max_bytes cfg)) (final_close c).
Proof.
  intros [[Hrv Hb] HrvN]. unfold final_close. rewrite do_close_eq. cbn [snd].
  apply close_bounded. intros b Hbe. specialize (Hb b Hbe). lia.
Qed.

Lemma serve_loop_bounded fuel : forall c,
  J c -> Forall (ev_bounded (cf_max_bytes cfg)) (serve_loop fuel cfg c).
Proof.
  induction fuel as [|f IH]; intros c HJ; cbn [serve_loop]; [repeat constructor|].
  destruct (c_closed c); [apply final_close_bounded, HJ|].
  pose proof (conn_read_line_c c) as Hc1.
  destruct (conn_read_line c) as [[line|e] c1]; cbn [snd] in Hc1.
  - assert (HJ1 : J c1) by (rewrite Hc1; destruct c; exact HJ).
    apply Forall_cons; [exact I|].
    destruct (parse_cmd line) as [[cmd arg]|].
    + destruct (handle_bounded c1 cmd arg HJ1) as [H1 H2].
      destruct (handle cfg c1 cmd arg) as [c2 ev]. cbn [fst snd] in *.
      apply Forall_app. split; [exact H2|apply IH, H1].
    + destruct (protocol_error_bounded c1 501 (5, 5, 2)%Z (bs "Bad command") HJ1) as [H1 H2].
      destruct (protocol_error c1 501 (5, 5, 2)%Z (bs "Bad command")) as [c2 ev]. cbn [fst snd] in *.
      apply Forall_app. split; [exact H2|apply IH, H1].
  - assert (HJ1 : J c1) by (rewrite Hc1; destruct c; exact HJ).
    destruct e; try (apply Forall_cons; [exact I|]); apply final_close_bounded, HJ1.
Qed.

End Run.

(* With MaxMessageBytes = N > 0: over a whole connection - any commands, any
   chunkings, any backend behaviour, any network schedule, any number of
   transactions - no delivery started by BDAT is ever handed more than N
   octets. *)
Theorem serve_bdat_deliveries_bounded fuel cfg be phases got t r pn :
  (0 < cf_max_bytes cfg)%Z ->
  In (EDelivery got t r pn) (serve fuel cfg be phases) ->
  (Z.of_N (blen got) <= cf_max_bytes cfg)%Z.
Proof.
  intros HN Hin.
  assert (H : Forall (ev_bounded (cf_max_bytes cfg)) (serve fuel cfg be phases)).
  { unfold serve. apply Forall_cons; [exact I|]. apply serve_loop_bounded; [exact HN|].
    unfold J, bdat_bounded, init_conn. destruct phases; cbn; repeat split; try lia; discriminate. }
  rewrite Forall_forall in H. exact (H _ Hin).
Qed.

(* ====================================================================== *)
(* 15. end-of-file on the BDAT path over a whole connection (C07)          *)
(* ====================================================================== *)

Section NoEof.
Variable cfg : config.

Definition NGood (r : hres) : Prop := Forall not_eof (snd r).

Ltac innern x :=
  lazymatch x with
  | match ?y with _ => _ end => innern y
  | _ => destruct x eqn:?
  end.
Ltac brkn :=
  first
  [ rewrite do_reset_eq; cbv beta iota zeta
  | rewrite do_close_eq; cbv beta iota zeta
  | match goal with
    | |- NGood (match ?x with _ => _ end) => innern x; cbv beta iota zeta
    end ].

Lemma auth_events_ne l : forallb is_auth_ev l = true -> Forall not_eof l.
Proof.
  induction l as [|e l IH]; intros H; [constructor|].
  cbn in H. apply andb_true_iff in H as [H1 H2]. constructor; [|apply IH, H2].
  destruct e; try discriminate; exact I.
Qed.

Ltac nleaf :=
  repeat match goal with
  | H : auth_loop ?s ?c ?r = (?c2, ?ev, ?ok) |- _ =>
      let H1 := fresh "Hal" in
      pose proof (auth_loop_spec s c r) as H1; rewrite H in H1; cbn [fst snd] in H1;
      destruct H1 as [?Hc2 ?Hev]; clear H
  end;
  unfold NGood; cbn [snd]; unfold reply, reply_err, syntax_mail, syntax_rcpt;
  repeat first
    [ assumption
    | apply ne_reset | apply ne_close
    | apply Forall_nil
    | apply (ne_wires _ (forallb_map_status_reply2 _))
    | apply (ne_wires _ (forallb_map_status_reply (fun _ => _) _))
    | apply auth_events_ne; assumption
    | apply Forall_app; split
    | apply Forall_cons; [exact I|]
    | match goal with |- context [if ?b then [?e] else []] => destruct b end ].

Lemma handle_greet_ne c enh arg : NGood (handle_greet cfg c enh arg).
Proof. unfold handle_greet. cbv zeta. repeat brkn; nleaf. Qed.

Lemma handle_mail_ne c arg : NGood (handle_mail cfg c arg).
Proof. unfold handle_mail, pop_mail. cbv zeta. repeat brkn; nleaf. Qed.

Lemma handle_rcpt_ne c arg : NGood (handle_rcpt cfg c arg).
Proof. unfold handle_rcpt, pop_rcpt. cbv zeta. repeat brkn; nleaf. Qed.

Lemma protocol_error_ne c code ec msg : NGood (protocol_error c code ec msg).
Proof. unfold protocol_error. cbv zeta. repeat brkn; nleaf. Qed.

Lemma handle_auth_ne c arg : NGood (handle_auth cfg c arg).
Proof. unfold handle_auth, pop_auth. cbv zeta. repeat brkn; nleaf. Qed.

Lemma handle_data_ne c arg : NGood (handle_data cfg c arg).
Proof. unfold handle_data, pop_data, close_unless. cbv zeta. repeat brkn; nleaf. Qed.

Lemma handle_starttls_ne c : NGood (handle_starttls cfg c).
Proof. unfold handle_starttls. cbv zeta. repeat brkn; nleaf. Qed.

(* every command other than BDAT - RSET, QUIT, EHLO/HELO/LHLO, MAIL, RCPT,
   DATA, AUTH, STARTTLS, NOOP, VRFY, unknown ones, the error threshold - can
   end a running chunked delivery only with ErrDataReset *)
Theorem handle_eof_only_bdat c cmd arg :
  NGood (handle cfg c cmd arg) \/ handle cfg c cmd arg = handle_bdat cfg c arg.
Proof.
  unfold handle.
  destruct cmd as [|c0 cmd]; [left; apply protocol_error_ne|].
  set (CMD := to_upper (c0 :: cmd)). clearbody CMD.
  repeat match goal with
         | |- NGood (if ?b then _ else _) \/ _ => destruct b
         end;
    try (right; reflexivity);
    left;
    try (apply handle_greet_ne);
    try (apply handle_mail_ne);
    try (apply handle_rcpt_ne);
    try (apply handle_data_ne);
    try (apply handle_auth_ne);
    try (apply handle_starttls_ne);
    try (apply protocol_error_ne);
    try (repeat constructor).
  - rewrite do_reset_eq. nleaf.
  - rewrite do_close_eq. nleaf.
Qed.

Lemma final_close_ne c : Forall not_eof (final_close c).
Proof. unfold final_close. rewrite do_close_eq. apply ne_close. Qed.

(* every end-of-file on the BDAT path in a run of the command loop is
   produced by some invocation of handle_bdat *)
Lemma serve_loop_eof_from_bdat fuel got r pn : forall c,
  In (EDelivery got (Some REOF) r pn) (serve_loop fuel cfg c) ->
  exists c' arg, In (EDelivery got (Some REOF) r pn) (snd (handle_bdat cfg c' arg)).
Proof.
  assert (Hne : forall l, Forall not_eof l -> ~ In (EDelivery got (Some REOF) r pn) l).
  { intros l H Hin. rewrite Forall_forall in H. exact (H _ Hin). }
  induction fuel as [|f IH]; intros c Hin; cbn [serve_loop] in Hin.
  { destruct Hin as [H|[]]. discriminate. }
  destruct (c_closed c); [exfalso; exact (Hne _ (final_close_ne c) Hin)|].
  destruct (conn_read_line c) as [[line|e] c1].
  - destruct Hin as [H|Hin]; [discriminate|].
    destruct (parse_cmd line) as [[cmd arg]|].
    + destruct (handle_eof_only_bdat c1 cmd arg) as [Hn|Heq].
      * unfold NGood in Hn. destruct (handle cfg c1 cmd arg) as [c2 ev]. cbn [snd] in Hn.
        apply in_app_or in Hin. destruct Hin as [Hin|Hin]; [exfalso; exact (Hne _ Hn Hin)|].
        exact (IH _ Hin).
      * rewrite Heq in Hin. destruct (handle_bdat cfg c1 arg) as [c2 ev] eqn:Eh.
        apply in_app_or in Hin. destruct Hin as [Hin|Hin]; [|exact (IH _ Hin)].
        exists c1, arg. rewrite Eh. exact Hin.
    + pose proof (protocol_error_ne c1 501 (5, 5, 2)%Z (bs "Bad command")) as Hn. unfold NGood in Hn.
      destruct (protocol_error c1 501 (5, 5, 2)%Z (bs "Bad command")) as [c2 ev]. cbn [snd] in Hn.
      apply in_app_or in Hin. destruct Hin as [Hin|Hin]; [exfalso; exact (Hne _ Hn Hin)|].
      exact (IH _ Hin).
  - exfalso. destruct e; try (destruct Hin as [H|Hin]; [discriminate|]);
      exact (Hne _ (final_close_ne c1) Hin).
Qed.

End NoEof.

(* C07, BDAT half, over a whole connection: whenever the reader of a chunked
   delivery reports end-of-file - in any run, for any input, schedule and
   backend - it is because a BDAT ... LAST command was accepted and the copy
   of its chunk obtained every declared octet.  Connection loss, timeouts,
   RSET, QUIT, a new EHLO, STARTTLS, or simply the end of the connection
   without a LAST chunk never do. *)
Theorem serve_bdat_eof_only_after_full_last fuel cfg be phases got r pn :
  In (EDelivery got (Some REOF) r pn) (serve fuel cfg be phases) ->
  exists c arg n chunk t1,
    bdat_classify cfg c arg = BvAccept n true /\
    t_copy_n n (set_limit (c_t c) 0) = (chunk, None, t1) /\ blen chunk = n.
Proof.
  intros Hin. unfold serve in Hin. destruct Hin as [H|Hin]; [discriminate|].
  destruct (serve_loop_eof_from_bdat cfg fuel got r pn _ Hin) as (c & arg & H).
  destruct (bdat_eof_only_after_full_last cfg c arg got r pn H) as (n & chunk & t1 & H1 & H2 & H3).
  exists c, arg, n, chunk, t1. auto.
Qed.
