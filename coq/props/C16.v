(* C16 - a message written through the client arrives intact at a go-smtp backend.

   (1) Body: for EVERY body in which CR occurs only as part of CRLF, EVERY
       partition of it into Write calls (the dot-writer's state is threaded
       through the calls), EVERY following octets: the line-wise dot-unstuffing
       specification applied to what the client's DotWriter puts on the wire
       yields exactly normalise(body) - bare LF turned into CRLF, a final CRLF
       ensured, lines beginning with '.' intact, nothing cut at embedded
       end-of-data look-alikes - and stops exactly at the writer's end
       (C16_roundtrip, C16_partition_independent; C16_already_canonical: a body
       already in wire form arrives unchanged).  Composed with the server's
       DATA reader (C01): for every network segmentation and every backend read
       size the backend reads normalise(body) then EOF and the command stream
       resumes behind the message (C16_backend_reads).
   (2) Close: returns the server's verdict (C16_close_verdict_smtp/_lmtp) and a
       second Close writes nothing and returns an error (C16_close_twice) -
       theorems about the client model Client.v, tied to client.go by the cli
       correspondence; the composition client <-> server is additionally run on
       the real implementations by the trip cases of this check.
   The envelope half (sender and recipients arrive as given) is C14. *)
From Smtp Require Import Bytes Transport DataReader DotSpec TransportProofs DataProofs DotWriter DotWriterProofs C16Proofs DotSpecOrder DotWriterOrder.

Theorem C16_roundtrip : forall parts tail, cr_only_in_crlf (List.concat parts) = true ->
  unstuff (dot_write_all parts ++ tail) = Complete (normalise (List.concat parts)) tail.
Proof. exact dot_roundtrip_parts. Qed.
Print Assumptions C16_roundtrip.

Theorem C16_partition_independent :
  forall parts, dot_write_all parts = dot_write_all [List.concat parts].
Proof. exact dot_write_partition_independent. Qed.
Print Assumptions C16_partition_independent.

Theorem C16_framed_for_any_body : forall parts tail,
  unstuff (dot_write_all parts ++ tail) = Complete (dw_received (List.concat parts)) tail.
Proof. exact dot_roundtrip_parts_any. Qed.
Print Assumptions C16_framed_for_any_body.

(* for EVERY body, also one with bare CRs (outside the domain of C16_roundtrip):
   the message the server side extracts from what the client wrote contains
   every octet of the body, in order - nothing dropped, duplicated or
   reordered; only line-ending octets are added *)
Theorem C16_nothing_dropped : forall parts tail,
  exists received,
    unstuff (dot_write_all parts ++ tail) = Complete received tail /\
    subseq (List.concat parts) received.
Proof. exact dot_write_nothing_dropped. Qed.
Print Assumptions C16_nothing_dropped.

Theorem C16_already_canonical : forall body tail,
  cr_only_in_crlf body = true -> lf_only_in_crlf false body = true -> ends_with crlf body = true ->
  unstuff (dot_write_all [body] ++ tail) = Complete body tail.
Proof. exact dot_roundtrip_exact. Qed.
Print Assumptions C16_already_canonical.

Theorem C16_backend_reads (t : transport) (parts : list bytes) (tail : bytes) (sizes : list nat) :
  transparent t ->
  tstream t = dot_write_all parts ++ tail ->
  cr_only_in_crlf (List.concat parts) = true ->
  let '(out, e, d', t') := backend_reads sizes None (new_data_reader 0) t in
  out = normalise (List.concat parts) /\ e = Some REOF /\ tstream t' = tail /\ transparent t'.
Proof. exact (client_message_arrives t parts tail sizes). Qed.
Print Assumptions C16_backend_reads.

Theorem C16_backend_gets_every_octet (t : transport) (parts : list bytes) (tail : bytes) (sizes : list nat) :
  transparent t ->
  tstream t = dot_write_all parts ++ tail ->
  let '(out, e, d', t') := backend_reads sizes None (new_data_reader 0) t in
  subseq (List.concat parts) out /\ e = Some REOF /\ tstream t' = tail.
Proof. exact (client_message_nothing_dropped t parts tail sizes). Qed.
Print Assumptions C16_backend_gets_every_octet.

(* non-vacuity: a body with a bare LF, a dot line and an end-of-data look-alike, written in three pieces *)
Example C16_witness :
  let parts := [bs "a" ++ [LF] ++ bs ".b"; [CR; LF] ++ bs "." ++ [CR]; [LF] ++ bs "c"] in
  cr_only_in_crlf (List.concat parts) = true /\
  unstuff (dot_write_all parts ++ bs "NOOP") =
    Complete (bs "a" ++ [CR; LF] ++ bs ".b" ++ [CR; LF] ++ bs "." ++ [CR; LF] ++ bs "c" ++ [CR; LF]) (bs "NOOP").
Proof. vm_compute. split; reflexivity. Qed.

(* ---------------- client half: Close ---------------- *)
From Smtp Require Import Bytes Reply ClientReply Client ClientProofs.

Theorem C16_close_twice : forall c r c1,
  (exists d, c_dw c = Some d) -> dw_close c = (r, c1) ->
  dw_close c1 = (RLocal err_closed_twice, c1) /\ c_out (snd (dw_close c1)) = c_out c1.
Proof. exact ClientProofs.C16_close_twice. Qed.

Theorem C16_close_verdict_smtp : forall c cb e rest,
  writing c cb -> c_lmtp c = false -> reads (c_in c) 250 e rest ->
  fst (dw_close c) = res_of_cerr e /\ c_in (snd (dw_close c)) = rest.
Proof. exact ClientProofs.C16_close_verdict_smtp. Qed.

Theorem C16_close_verdict_lmtp : forall c vs rest,
  writing c false -> c_lmtp c = true ->
  serves250 (c_in c) vs rest -> List.length vs = List.length (c_rcpts c) ->
  fst (dw_close c) = first_neg RNil vs
  /\ (fst (dw_close c) = RNil <-> Forall (fun v => v = RNil) vs)
  /\ c_in (snd (dw_close c)) = rest.
Proof. exact ClientProofs.C16_close_verdict_lmtp. Qed.

Print Assumptions C16_close_twice.
Print Assumptions C16_close_verdict_smtp.
Print Assumptions C16_close_verdict_lmtp.
