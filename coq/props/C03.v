(* C03 - backend callbacks follow RFC 5321 transaction order; envelopes never leak.

   The statements are about the event list produced by the server model
   [serve fuel cfg be phases] for EVERY configuration [cfg], backend script
   [be] (accept / reject decisions, data plans), network schedule [phases]
   (all segmentations, all inputs) and amount of [fuel].  Vocabulary
   (TraceProps.v): [since p l] is the part of [l] after its last element of
   class [p]; [until p l] the part before the first one; a transaction ends
   with [EReset] or [ELogout] ([is_tx_end]); [live pre] means: a successful
   NewSession in [pre] with no Logout after it.

   C03_order: whenever the trace is [pre ++ e :: post],
   - e = NewSession h t _: no session is live and [t] is the TLS state at that
     point (implicit TLS, or a successful STARTTLS handshake in [pre]);
   - e = Mail: a session is live;
   - e = Rcpt: a session is live, a MAIL has been accepted since the last
     transaction end, and with MaxRecipients > 0 the number of recipients
     accepted since the last transaction end, this one included, is at most
     MaxRecipients;
   - e = Data (DATA path) or BdatStart (first BDAT chunk: the delivery starts):
     a session is live, an accepted MAIL and at least one accepted RCPT since
     the last transaction end.
   C03_end_signalled: after the final outcome of DATA no callback begins, no
   command is read and the connection is not closed until the Reset (or
   Logout) that signals the end of the transaction; on a trace that reaches
   the closing of the connection that Reset/Logout exists
   (C03_end_signalled_complete; [~ In EOutOfFuel] = the fuel of the model's
   loop sufficed; C03_end_signalled_enough_fuel: the fuel bound used by the
   checker, [conv_fuel phases] = 16 + sum over the phases of (size + 4),
   always suffices - C03_fuel_enough).  Since the envelope conditions above are
   relative to the last transaction end, RCPT/DATA/BDAT need a new MAIL then.
   C03_monitor_accepts: the monitor automaton Order.mon_run (the executable
   specification evaluated by the correspondence harness on the model trace
   of every recorded conversation) accepts every trace of the model. *)
From Smtp Require Import Bytes Transport Reply Conn Order OrderStrict ConnProofs TraceProps ConnNoPanic
  ConnFuel TraceExamples.

Theorem C03_monitor_accepts : forall fuel cfg be phases,
  mon_run cfg (mon_init (cf_implicit_tls cfg)) (serve fuel cfg be phases) <> None.
Proof. exact serve_accepted. Qed.
Print Assumptions C03_monitor_accepts.

Theorem C03_order : forall fuel cfg be phases,
  TraceProps.C03_order cfg (serve fuel cfg be phases).
Proof. exact serve_C03_order. Qed.
Print Assumptions C03_order.

Theorem C03_end_signalled : forall fuel cfg be phases,
  TraceProps.C03_end_signalled (serve fuel cfg be phases).
Proof. exact serve_C03_end_signalled. Qed.
Print Assumptions C03_end_signalled.

Theorem C03_end_signalled_complete : forall fuel cfg be phases,
  ~ In EOutOfFuel (serve fuel cfg be phases) ->
  TraceProps.C03_end_signalled_complete (serve fuel cfg be phases).
Proof. exact serve_C03_end_signalled_complete. Qed.
Print Assumptions C03_end_signalled_complete.

Theorem C03_fuel_enough : forall fuel cfg be phases,
  conv_fuel phases <= fuel -> ~ In EOutOfFuel (serve fuel cfg be phases).
Proof. exact serve_fuel_enough. Qed.
Print Assumptions C03_fuel_enough.

Theorem C03_end_signalled_enough_fuel : forall fuel cfg be phases,
  conv_fuel phases <= fuel ->
  TraceProps.C03_end_signalled_complete (serve fuel cfg be phases).
Proof. exact serve_complete_end_signalled. Qed.
Print Assumptions C03_end_signalled_enough_fuel.

(* non-vacuity: a conversation with EHLO, AUTH, MAIL, three RCPT under a limit
   of two (the third is refused 452 without a callback), DATA, a late RCPT
   (502, no callback), MAIL, RSET, STARTTLS, EHLO, QUIT.  At its Data event the
   premises of the theorems hold non-trivially: two recipients accepted since
   the last transaction end, and the Reset follows after the reply. *)
Example C03_witness :
  map show_kind ex1_trace = ex1_shape /\ ~ In EOutOfFuel ex1_trace /\
  conv_fuel [ex1_plain; ex1_tls] <= 1000 /\
  let pre := firstn 22 ex1_trace in
  let post := skipn 23 ex1_trace in
  (exists g t r p, ex1_trace = pre ++ EData g t r p :: post) /\
  live pre = true /\ existsb is_mail_ok (since is_tx_end pre) = true /\
  count is_rcpt_ok (since is_tx_end pre) = 2%nat /\
  map show_kind (until is_tx_end post) = ["reply 250"%string] /\
  map show_kind (firstn 2 post) = ["reply 250"; "Reset"]%string.
Proof.
  split; [exact ex1_shape_ok|]. split; [exact ex1_fuel_ok|].
  split; [vm_compute; lia|].
  split; [do 4 eexists; vm_compute; reflexivity|].
  vm_compute. repeat split; reflexivity.
Qed.


(* ---------------- out-of-order commands are answered 5xx (4xx for the recipient limit) ---------------- *)
(* Together with C03_order (no callback outside the allowed states) these give the property's clause
   "an out-of-order command is answered 5xx and causes no callback": each refusal below is the handler's
   complete result - the state is unchanged and the only event is the reply. *)
From Smtp Require Import GoStrings Parse C03Refusals.

Theorem C03_mail_before_greeting cfg c arg :
  c_helo c = nil ->
  handle_mail cfg c arg = (c, [reply 502 (5, 5, 1)%Z (bs "Please introduce yourself first.")]).
Proof. exact (mail_before_greeting cfg c arg). Qed.
Print Assumptions C03_mail_before_greeting.

Theorem C03_rcpt_without_mail cfg c arg :
  c_from c = false ->
  handle_rcpt cfg c arg = (c, [reply 502 (5, 5, 1)%Z (bs "Missing MAIL FROM command.")]).
Proof. exact (rcpt_without_mail cfg c arg). Qed.
Print Assumptions C03_rcpt_without_mail.

Theorem C03_data_without_envelope cfg c :
  c_bdat c = None -> c_binarymime c = false -> (c_from c = false \/ c_rcpts c = nil) ->
  handle_data cfg c nil = (c, [reply 502 (5, 5, 1)%Z (bs "Missing RCPT TO command.")]).
Proof. exact (data_without_envelope cfg c). Qed.
Print Assumptions C03_data_without_envelope.

Theorem C03_refused_during_transfer cfg c arg b :
  c_bdat c = Some b ->
  (c_helo c <> nil -> handle_mail cfg c arg = (c, [reply 502 (5, 5, 1)%Z (bs "MAIL not allowed during message transfer")]))
  /\ (c_from c = true -> handle_rcpt cfg c arg = (c, [reply 502 (5, 5, 1)%Z (bs "RCPT not allowed during message transfer")]))
  /\ handle_data cfg c nil = (c, [reply 502 (5, 5, 1)%Z (bs "DATA not allowed during message transfer")]).
Proof. exact (mail_rcpt_data_during_transfer cfg c arg b). Qed.
Print Assumptions C03_refused_during_transfer.

Theorem C03_wrong_flavour_refused cfg c arg :
  (cf_lmtp cfg = true ->
     (exists m, handle cfg c (bs "EHLO") arg = (c, [reply 500 (5, 5, 1)%Z m]))
     /\ (exists m, handle cfg c (bs "HELO") arg = (c, [reply 500 (5, 5, 1)%Z m])))
  /\ (cf_lmtp cfg = false -> exists m, handle cfg c (bs "LHLO") arg = (c, [reply 500 (5, 5, 1)%Z m])).
Proof. exact (wrong_flavour_refused cfg c arg). Qed.
Print Assumptions C03_wrong_flavour_refused.
