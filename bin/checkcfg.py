"""Per-property configuration of bin/check."""

PROPS = {}

PROPS["C01"] = {
    "kinds": ["dr"],
    "rule": "dr: DATA reader run in isolation on a scripted raw-read schedule. Exhaustive streams over {'.',CR,LF,'x'} (all segmentations x read sizes up to length 4, rotating beyond), seeded random streams over all 256 octets with planted end-marker look-alikes, size-limit sweep, cut points. A case is non-trivial unless tagged 'trivial'; distinct = distinct generated case lines.",
    "trusted_base": ["model of bufio.Reader.ReadByte/UnreadByte and of lineLimitReader.Read (Transport.v), tied by the same runs"],
    "assumptions": ["limiter transparency (no line of the message longer than MaxLineLength) is the hypothesis of C01_byte_exact; streams violating it are covered by C19"],
}
