(* kind c11: one MAIL / RCPT command line against the real server.
   (c11 (cfg ...) (verb mail|rcpt) (arg x..) (obs (code n) (cb none|(mail ..)|(rcpt ..))))
   - model: the dispatcher [handle] on the line, in a state where the command
     is admissible; compared with the observed reply code and callback;
   - oracle: the reference grammar's verdict on the argument, evaluated on the
     OBSERVED behaviour (independent of the model). *)
From Smtp Require Import Bytes Sx GoStrings Transport Parse Reply Rfc3339 Conn CheckBase CheckConv RefGrammar.
Local Open Scope char_scope.

(* a connection after "EHLO x" (and, for RCPT, an accepted MAIL) *)
Definition c11_state (cfg : config) (rcpt : bool) : conn :=
  mkC (mkT [] [] 0 (cf_max_line cfg) false) [] (mkBE [] [] [] [] []) (bs "x") true 0 false rcpt []
      false false false None 0.

(* the Go API cannot tell the instant 0001-01-01T00:00:00Z from "unset" *)
Definition canon_ro (o : rcpt_opts) : rcpt_opts :=
  match ro_rrvs o with
  | Some t =>
      if (rt_unix t =? -62135596800)%Z && (rt_nsec t =? 0)%Z
      then mkRO (ro_notify o) (ro_orcpt_type o) (ro_orcpt o) None else o
  | None => o
  end.

(* reply code (first three octets of the first wire event) and callback *)
Definition c11_code (evs : list event) : bytes :=
  match filter (fun e => match e with EWire _ => true | _ => false end) evs with
  | EWire b :: _ => firstn 3 b
  | _ => []
  end.

Definition c11_cb (evs : list event) : sx :=
  match filter (fun e => match e with EMail _ _ _ | ERcpt _ _ _ => true | _ => false end) evs with
  | EMail f o r :: _ => SL [XT "mail"; XB f; show_mo o; show_berr r]
  | ERcpt t o r :: _ => SL [XT "rcpt"; XB t; show_ro (canon_ro o); show_berr r]
  | _ => XT "none"
  end.

Definition is_5xx (code : bytes) : bool :=
  match code with c :: _ => Ascii.eqb c "5" | [] => false end.

(* parameter kinds mentioned in the argument, for the input distribution *)
Definition c11_kinds (arg : bytes) : list bytes :=
  let keys := map r_tok_key (tl (split_byte " " arg)) in
  filter (fun k => existsb (bytes_eqb k) keys)
         [bs "SIZE"; bs "BODY"; bs "SMTPUTF8"; bs "REQUIRETLS"; bs "RET"; bs "ENVID"; bs "AUTH";
          bs "NOTIFY"; bs "ORCPT"; bs "RRVS"].

Definition check_c11 (args : list sx) : verdict :=
  match assoc "cfg" args, assoc1 "verb" args, assoc1 "arg" args, assoc "obs" args with
  | Some cfga, Some verb, Some argx, Some obs =>
      match dec_cfg cfga, sx_bytes argx, assoc1 "code" obs, assoc1 "cb" obs with
      | Some cfg, Some arg, Some ocode, Some ocb =>
          let rcpt := sx_is "rcpt" verb in
          let line := (if rcpt then bs "RCPT " else bs "MAIL ") ++ arg in
          let c := c11_state cfg rcpt in
          (* ---- model ---- *)
          let evs :=
            match parse_cmd line with
            | Some (cmd, a) => snd (handle cfg c cmd a)
            | None => snd (protocol_error c 501 (5, 5, 2)%Z (bs "Bad command"))
            end in
          let mcode := c11_code evs in
          let mcb := c11_cb evs in
          let model := SL [XT "obs"; SL [XT "code"; SA ("n" :: mcode)]; SL [XT "cb"; mcb]] in
          let ocode_b := match ocode with SA (_ :: d) => d | _ => [] end in
          let nondet := line_nondet cfg line in
          let agree :=
            if nondet then is_5xx ocode_b && is_5xx mcode && sx_is "none" ocb && sx_is "none" mcb
            else bytes_eqb mcode ocode_b && sx_eqb mcb ocb in
          (* ---- oracle: the reference grammar on the observed behaviour ---- *)
          let refused := is_5xx ocode_b && sx_is "none" ocb in
          let '(cls_tag, ok) :=
            if rcpt then
              match classify_rcpt cfg arg with
              | Valid mb o =>
                  (bs "valid", sx_eqb ocb (SL [XT "rcpt"; XB mb; show_ro o; show_berr BNil]))
              | Invalid => (bs "invalid", refused)
              | Unspecified => (bs "unspecified", true)
              end
            else
              match classify_mail cfg arg with
              | Valid mb o =>
                  (bs "valid", sx_eqb ocb (SL [XT "mail"; XB mb; show_mo o; show_berr BNil]))
              | Invalid => (bs "invalid", refused)
              | Unspecified => (bs "unspecified", true)
              end in
          (* no known finding: the two former deviations (Unicode-folded
             keywords, valued SMTPUTF8 / REQUIRETLS) are repaired; such lines
             are tagged for the input distribution and judged like any other *)
          mkV true agree model (if ok then [] else [bs "C11"]) []
              ([cls_tag; if rcpt then bs "rcpt" else bs "mail"]
               ++ c11_kinds arg
               ++ (if fold_trap arg then [bs "u017f-u0131"] else [])
               ++ (if flag_with_value arg then [bs "flag-with-value"] else [])
               ++ (if nondet then [bs "nondet-param-order"] else [])
               ++ (if sx_is "none" ocb then [] else [bs "callback"]))
      | _, _, _, _ => bad_case
      end
  | _, _, _, _ => bad_case
  end.
