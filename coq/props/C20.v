(* C20 - no data races or deadlocks; Close and Shutdown end serving exactly once.

   Part of the truth of this property lives in the Go runtime.  What is
   PROVED (about models), what is RE-CHECKED AGAINST THE SOURCE on every run,
   and what is only OBSERVED at run time:

   (1) Data races - proved once, generically (Lockset.v): interleaving
       semantics of task instances made of Acc/Acq/Rel/Spawn/Send/Recv events
       with one mutex; mutual exclusion; and for the family {one loop task
       running ANY sequence of handler bodies, detached closures, scoped
       (joined) closures, external tasks} the checker [races] is sound: every
       data race reachable under ANY schedule, for ANY sequence of handler
       invocations and ANY set of external tasks, is on a listed pair.
       RE-CHECKED ON EVERY RUN: tools/accesses regenerates the access table of
       conn.go/server.go (coq/gen/Accesses.v: per function and go-literal the
       reads/writes of Conn fields, the c.locker regions, calls, spawns and
       joins), and [C20_races_exactly] recomputes the set of unprotected
       conflicting pairs with vm_compute and compares it with [known_races].
       On the current tree the full statement is REFUTED (C20_race_refuted:
       MAIL's unlocked read of c.bdatPipe against a concurrent Server.Close ->
       Conn.Close) and the partial statements hold: every reachable race is
       one of the 13 listed (field, function, function) pairs
       (C20_races_only_known); with the 9 listed unlocked command-loop
       accesses removed there is no race at all (C20_race_free_partial).
   (2) Deadlocks / goroutines left behind (Interleave.v): small-step model of
       the command loop, the BDAT delivery goroutines, the io.Pipe
       rendezvous, the capacity-1 result channel and reset/Close aborting
       the pipe.  For all schedules no reachable state has every live task
       blocked; a delivery whose pipe is closed is never blocked again and
       finishes within 6 own steps; when the loop has ended every pipe is
       closed.  Hypothesis built into the model: Session.Data returns once
       its reader has failed (the documented contract).
   (3) Life cycle (ServerLife.v, tied to the real Server by the `life`
       correspondence cases of harness/genlife.go on every run): Close,
       Shutdown, second calls, back-off on temporary Accept errors.  Close
       ends EVERY connection: the registered ones at once, and one between
       Accept's return and its handler's registration as soon as that
       handler runs - it finds s.done closed under s.locker and closes the
       connection instead of registering and greeting it
       (C20_close_ends_every_connection, for all operation sequences and
       both orders of Close and the registration; the `life` cases force
       that window on the real server through the listener's Close, which
       Server.Close calls while holding s.locker).  Close and Shutdown are
       atomic steps of the model; the code implements that atomicity (the
       test of s.done and close(s.done) are done under s.locker), and
       TestScenarioConcurrentClose checks it on the real server.
       Both were defects of the original tree (DESIGN F28, F21), repaired.
       A listener whose Close returns an error is a parameter of the model
       (lis_err): Close and Shutdown remember the error, carry on and return
       it at the end; the run is the clean run with that one return value
       changed (C20_listener_close_error; the `life` cases script a listener
       whose Close fails, with connections in every state).
   RUNTIME ONLY (observed, not proved): Go's scheduler/memory model being
   captured by the interleaving semantics; net.Conn, io.Pipe, channels,
   sync.Mutex/WaitGroup being race free themselves; objects reached THROUGH
   a field (bufio.Reader, lineLimitReader, dataReader) are covered only as
   far as the field that holds them; the -race scenarios of
   harness/race_test.go. *)
From Coq Require Import List String Bool NArith.
From Smtp Require Import Lockset LocksetInst Interleave InterleaveProofs ServerLife ServerLifeProofs.
Import ListNotations.

(* ---- (1) data races ---- *)

(* generic: at most one instance is between Acq and Rel, in every reachable state *)
Theorem C20_mutual_exclusion :
  forall (I C : Type) (I_dec : forall a b : I, {a = b} + {a <> b})
         (C_dec : forall a b : C, {a = b} + {a <> b})
         (p : @program I C) (sched : list I) (i j : I),
    inside p (Lockset.run I_dec C_dec p sched) i -> inside p (Lockset.run I_dec C_dec p sched) j -> i = j.
Proof. exact (@mutual_exclusion). Qed.
Print Assumptions C20_mutual_exclusion.

(* generic: lock discipline + spawn / send-before-receive ordering => no race *)
Theorem C20_lockset_sound :
  forall (I C : Type) (I_dec : forall a b : I, {a = b} + {a <> b})
         (C_dec : forall a b : C, {a = b} + {a <> b}) (p : @program I C),
    disciplined p -> forall sched, no_race (Lockset.run I_dec C_dec p sched).
Proof. exact (@lockset_hb_sound). Qed.
Print Assumptions C20_lockset_sound.

(* the family: the decidable checker is sound for every handler sequence,
   every set of external tasks, every schedule *)
Theorem C20_checker_sound :
  forall tpl, race_free_b tpl = true ->
  forall hs es sched, no_race (Lockset.run iid_dec chan_dec (inst tpl hs es) sched).
Proof. exact race_free_b_sound. Qed.
Print Assumptions C20_checker_sound.

(* the obligation re-checked against the regenerated table on every run *)
Theorem C20_races_exactly : same_set_b (races conn_program) known_races = true.
Proof. exact conn_races_exactly. Qed.
Print Assumptions C20_races_exactly.

(* refuted: a reachable data race of the current tree *)
Theorem C20_race_refuted :
  race (Lockset.run iid_dec chan_dec (inst conn_program ["handleMail"%string] [["Close"%string]])
            race_witness_sched).
Proof. exact conn_race_refuted. Qed.
Print Assumptions C20_race_refuted.

(* partial: every reachable race is one of the listed pairs *)
Theorem C20_races_only_known :
  forall hs es sched i j f w1 t1 r1 w2 t2 r2,
    let s := Lockset.run iid_dec chan_dec (inst conn_program hs es) sched in
    i <> j -> started s i = true -> started s j = true ->
    pc s i = Acc f w1 t1 :: r1 -> pc s j = Acc f w2 t2 :: r2 ->
    (w1 || w2) = true ->
    In (f, t1, t2) known_races \/ In (f, t2, t1) known_races.
Proof. exact conn_races_only_known. Qed.
Print Assumptions C20_races_only_known.

(* partial: without the listed unlocked command-loop accesses, no race *)
Theorem C20_race_free_partial :
  forall hs es sched,
    no_race (Lockset.run iid_dec chan_dec (inst (prune known_racy_accesses conn_program) hs es) sched).
Proof. exact conn_race_free_partial. Qed.
Print Assumptions C20_race_free_partial.

(* ---- (2) deadlocks, goroutines left behind ---- *)

Theorem C20_no_deadlock :
  forall (lmtp : bool) (sched : list action),
    let s := Interleave.run lmtp Interleave.init sched in
    final s \/ exists a, enabled lmtp s a.
Proof. exact no_deadlock. Qed.
Print Assumptions C20_no_deadlock.

Theorem C20_delivery_terminates :
  forall (lmtp : bool) s i sched,
    InterleaveProofs.Inv s -> i < nd s -> pipe_closed (dv s i) = true ->
    6 <= own_moves i sched ->
    d_st (dv (Interleave.run lmtp s sched) i) = DDone.
Proof. exact delivery_done_after_six. Qed.
Print Assumptions C20_delivery_terminates.

Theorem C20_no_goroutine_left_behind :
  forall (lmtp : bool) sched i,
    let s := Interleave.run lmtp Interleave.init sched in
    loop s = LEnd -> i < nd s -> pipe_closed (dv s i) = true.
Proof. exact no_goroutine_left_behind. Qed.
Print Assumptions C20_no_goroutine_left_behind.

(* ---- (3) life cycle ---- *)

Theorem C20_close_once :
  forall s, reachable s -> done s = false ->
  let s' := fst (ServerLife.step s OClose) in
  snd (ServerLife.step s OClose) = BRet (ok_ret s) /\
  serving s' = false /\
  (serving s = true -> serve_ret s' = Some RNil) /\
  conns s' = close_all (conns s) /\ Forall (fun c => c <> COpen) (conns s') /\
  forall l o, (o = OClose \/ o = OShutdown) ->
              snd (ServerLife.step (run_st s' l) o) = BRet RServerClosed.
Proof. exact C20_close_once_lemma. Qed.
Print Assumptions C20_close_once.

(* Close ends every connection, whatever the order of Close and the
   handlers' registrations (the window between Accept and registration) *)
Theorem C20_close_ends_every_connection :
  forall e l1 l2,
  let s := run_st (init_e e) l1 in
  done s = false ->
  let s' := run_st (fst (ServerLife.step s OClose)) l2 in
  List.length (conns s') = List.length (conns s) /\
  Forall (fun c => c <> COpen) (conns s') /\
  (forall k c, nth_error (conns s') k = Some c ->
     nth_error (conns s) k <> Some CSpawned \/ In (ORegister k) l2 ->
     is_open c = false) /\
  ((forall k, nth_error (conns s) k = Some CSpawned -> In (ORegister k) l2) ->
   open_count s' = 0%nat).
Proof. exact C20_close_ends_every_connection_lemma. Qed.
Print Assumptions C20_close_ends_every_connection.

(* A listener whose Close returns an error changes nothing but the error
   returned: for every operation sequence the run with the failing listener
   (init_e true) reaches the state of the run with a clean listener - Serve
   returned the same, the same connections were ended by the server, as many
   are active, the same Shutdown blocks - and its observations are those of
   the clean run with the nil of the first Close / Shutdown (returned at once
   or when the blocked call is released) replaced by the listener's error.
   [reachable], and with it every theorem of this part, covers both values of
   the parameter (ok_ret s = the listener's error or nil). *)
Theorem C20_listener_close_error :
  forall l,
  let sf := run_st (init_e true) l in
  let s := run_st ServerLife.init l in
  sf = set_err true s /\
  serving sf = serving s /\ serve_ret sf = serve_ret s /\ done sf = done s /\
  conns sf = conns s /\ open_count sf = open_count s /\ sd_pending sf = sd_pending s /\
  snd (ServerLife.run (init_e true) l) = map mark_obs (snd (ServerLife.run ServerLife.init l)) /\
  ~ In (BRet RListenerErr) (snd (ServerLife.run ServerLife.init l)) /\
  ~ In (BShutdownRet RListenerErr) (snd (ServerLife.run ServerLife.init l)).
Proof. exact C20_listener_close_error_lemma. Qed.
Print Assumptions C20_listener_close_error.

(* in the property's words: Close returns the listener's error AND has ended
   every registered connection (the ones in the accept window are covered by
   C20_close_ends_every_connection, which holds for both listeners) ... *)
Theorem C20_close_despite_listener_error :
  forall s, reachable s -> done s = false -> lis_err s = true ->
  let s' := fst (ServerLife.step s OClose) in
  snd (ServerLife.step s OClose) = BRet RListenerErr /\
  serving s' = false /\ conns s' = close_all (conns s) /\
  Forall (fun c => c <> COpen) (conns s') /\
  forall l o, (o = OClose \/ o = OShutdown) ->
              snd (ServerLife.step (run_st s' l) o) = BRet RServerClosed.
Proof. exact C20_close_despite_listener_error_lemma. Qed.
Print Assumptions C20_close_despite_listener_error.

(* ... and Shutdown with an active connection does not return on the
   listener's error: it blocks, and returns that error exactly when the last
   active connection has finished (the context not expiring) *)
Theorem C20_shutdown_despite_listener_error :
  forall s, reachable s -> done s = false -> lis_err s = true -> (open_count s > 0)%nat ->
  let s' := fst (ServerLife.step s OShutdown) in
  snd (ServerLife.step s OShutdown) = BPending /\
  forall l, has_expire l = false ->
    let s'' := run_st s' l in
    (sd_pending s'' = true /\ (open_count s'' > 0)%nat /\
     ~ In (BShutdownRet RListenerErr) (snd (ServerLife.run s' l))) \/
    (sd_pending s'' = false /\ open_count s'' = 0%nat /\
     In (BShutdownRet RListenerErr) (snd (ServerLife.run s' l))).
Proof. exact C20_shutdown_despite_listener_error_lemma. Qed.
Print Assumptions C20_shutdown_despite_listener_error.

(* after Close or Shutdown no connection is taken into service any more *)
Theorem C20_no_service_after_stop :
  forall s o j, reachable s -> done s = true ->
  nth_error (conns (fst (ServerLife.step s o))) j = Some COpen -> nth_error (conns s) j = Some COpen.
Proof. exact C20_no_service_after_stop_lemma. Qed.
Print Assumptions C20_no_service_after_stop.

Theorem C20_shutdown :
  forall s, reachable s -> done s = false ->
  let s' := fst (ServerLife.step s OShutdown) in
  serving s' = false /\ (serving s = true -> serve_ret s' = Some RNil) /\
  conns s' = conns s /\
  (forall l r, snd (ServerLife.step (run_st s' l) (OAccept r)) = BSkip) /\
  (open_count s = 0%nat -> snd (ServerLife.step s OShutdown) = BRet (ok_ret s)) /\
  ((open_count s > 0)%nat ->
   snd (ServerLife.step s OShutdown) = BPending /\
   (forall l, has_expire l = false ->
      let s'' := run_st s' l in
      (sd_pending s'' = true /\ (open_count s'' > 0)%nat /\
       snd (ServerLife.step s'' OExpire) = BShutdownRet RCtxErr) \/
      (sd_pending s'' = false /\ open_count s'' = 0%nat /\
       In (BShutdownRet (ok_ret s)) (snd (ServerLife.run s' l)) /\
       ~ In (BShutdownRet RCtxErr) (snd (ServerLife.run s' l))))) /\
  (forall l o, (o = OClose \/ o = OShutdown) ->
               snd (ServerLife.step (run_st s' l) o) = BRet RServerClosed).
Proof. exact C20_shutdown_lemma. Qed.
Print Assumptions C20_shutdown.

Theorem C20_accept_errors :
  forall s l, reachable s -> serving s = true -> forallb is_temp_or_conn l = true ->
  let s' := run_st s l in
  serving s' = true /\ ~ (exists r, In (BServeRet r) (snd (ServerLife.run s l))) /\
  sleeps s' = sleeps s ++ delays_from (delay s) (count_temp l) /\
  Forall delay_ok (delays_from (delay s) (count_temp l)) /\
  (serving (fst (ServerLife.step s' (OAccept APerm))) = false /\
   serve_ret (fst (ServerLife.step s' (OAccept APerm))) = Some RAcceptErr) /\
  (serving (fst (ServerLife.step s' OClose)) = false /\ serve_ret (fst (ServerLife.step s' OClose)) = Some RNil) /\
  (serving (fst (ServerLife.step s' OShutdown)) = false /\ serve_ret (fst (ServerLife.step s' OShutdown)) = Some RNil).
Proof. exact C20_accept_errors_lemma. Qed.
Print Assumptions C20_accept_errors.

(* the n-th back-off delay of a fresh server is min(5 ms * 2^n, 1 s) *)
Theorem C20_backoff_shape :
  forall n,
  Forall delay_ok (delays_from 0 n) /\
  (forall k d, nth_error (delays_from 0 n) k = Some d -> d = N.min (5 * 2 ^ N.of_nat k) 1000)%N.
Proof. exact delays_shape. Qed.
Print Assumptions C20_backoff_shape.
