(* Proofs about the life-cycle model ServerLife.v (property C20, second half) *)
From Coq Require Import List Arith NArith Bool Lia.
From Smtp Require Import ServerLife.
Import ListNotations.
Local Open Scope N_scope.

Definition delay_ok (d : N) : Prop := 5 <= d <= 1000.

Record Inv (s : st) : Prop := mkInv {
  inv_serving : serving s = true -> done s = false;
  inv_lis : lis_closed s = done s;
  inv_delay : delay s = 0 \/ delay_ok (delay s);
  inv_sleeps : Forall delay_ok (sleeps s);
  inv_pending : sd_pending s = true -> done s = true /\ (open_count s > 0)%nat
}.

Lemma inv_init_e e : Inv (init_e e).
Proof.
  constructor; simpl; auto; try discriminate.
Qed.

Lemma inv_init : Inv init.
Proof. exact (inv_init_e false). Qed.

Lemma next_delay_ok d : d = 0 \/ delay_ok d -> delay_ok (next_delay d).
Proof.
  unfold next_delay, delay_ok. intros H.
  destruct (d =? 0) eqn:E; [lia|]. apply N.eqb_neq in E. lia.
Qed.

Lemma next_delay_doubles d : delay_ok d -> next_delay d = N.min (2 * d) 1000.
Proof.
  unfold next_delay, delay_ok. intro H.
  destruct (d =? 0) eqn:E; [apply N.eqb_eq in E; lia | reflexivity].
Qed.

Lemma filter_set_nth_open k l :
  nth_error l k = Some COpen ->
  List.length (filter is_open l) = S (List.length (filter is_open (set_nth k CFinished l))).
Proof.
  revert k. induction l as [|c l IH]; intros k H.
  - destruct k; discriminate H.
  - destruct k as [|k]; simpl in H.
    + inversion H; subst c. reflexivity.
    + simpl. destruct (is_open c); simpl; rewrite (IH k H); reflexivity.
Qed.

Lemma nth_error_set_nth_same k v l :
  nth_error l k <> None -> nth_error (set_nth k v l) k = Some v.
Proof.
  revert k. induction l as [|c l IH]; intros k H.
  - destruct k; exfalso; apply H; reflexivity.
  - destruct k as [|k]; simpl; [reflexivity|]. apply IH. exact H.
Qed.

Lemma nth_error_set_nth_other k j v l :
  j <> k -> nth_error (set_nth k v l) j = nth_error l j.
Proof.
  revert k j. induction l as [|c l IH]; intros k j H.
  - destruct k; reflexivity.
  - destruct k as [|k]; destruct j as [|j]; simpl; try reflexivity.
    + exfalso; apply H; reflexivity.
    + apply IH. intro E. apply H. rewrite E. reflexivity.
Qed.

Lemma set_nth_length k v l : List.length (set_nth k v l) = List.length l.
Proof.
  revert k. induction l as [|c l IH]; intros k; [destruct k; reflexivity|].
  destruct k as [|k]; simpl; [reflexivity|]. rewrite IH. reflexivity.
Qed.

(* an open connection (spawned or registered) that ends *)
Lemma filter_set_nth_end k l c v :
  nth_error l k = Some c -> is_open c = true -> is_open v = false ->
  List.length (filter is_open l) = S (List.length (filter is_open (set_nth k v l))).
Proof.
  intros H Hc Hv. revert k H. induction l as [|c0 l IH]; intros k H.
  - destruct k; discriminate H.
  - destruct k as [|k]; simpl in H.
    + inversion H; subst c0. simpl. rewrite Hc, Hv. reflexivity.
    + simpl. destruct (is_open c0); simpl; rewrite (IH k H); reflexivity.
Qed.

Lemma filter_set_nth_reg k l :
  nth_error l k = Some CSpawned ->
  List.length (filter is_open (set_nth k COpen l)) = List.length (filter is_open l).
Proof.
  revert k. induction l as [|c l IH]; intros k H.
  - destruct k; discriminate H.
  - destruct k as [|k]; simpl in H.
    + inversion H; subst c. reflexivity.
    + simpl. destruct (is_open c); simpl; rewrite (IH k H); reflexivity.
Qed.

Lemma filter_open_app l : List.length (filter is_open (l ++ [CSpawned])) = S (List.length (filter is_open l)).
Proof. rewrite filter_app, app_length. simpl. lia. Qed.

Lemma close_all_none_open l : Forall (fun c => c <> COpen) (close_all l).
Proof. induction l as [|[| | |] l IH]; simpl; constructor; auto; discriminate. Qed.

Lemma step_inv s o : Inv s -> Inv (fst (step s o)).
Proof.
  intros HI. pose proof HI as [I1 I2 I3 I4 I5].
  destruct o as [r | j | | | k |]; simpl.
  - destruct (serving s && negb (lis_closed s)) eqn:E; [|exact HI].
    apply andb_prop in E. destruct E as [Es El].
    destruct r; simpl.
    + constructor; simpl; auto.
      intro Hp. destruct (I5 Hp) as [Hd Ho]. split; [exact Hd|].
      unfold open_count in *. simpl. rewrite filter_open_app. lia.
    + destruct (done s) eqn:Ed; simpl.
      * constructor; simpl; auto; try discriminate.
      * constructor; simpl; auto.
        -- right. apply next_delay_ok. exact I3.
        -- apply Forall_app. split; [exact I4|]. constructor; [|constructor].
           apply next_delay_ok. exact I3.
    + constructor; simpl; auto; try discriminate.
  - destruct (nth_error (conns s) j) as [[| | |]|] eqn:En; try exact HI.
    destruct (done s) eqn:Ed.
    + (* the server is closed: the handler ends the connection *)
      set (cs := set_nth j CClosedByServer (conns s)).
      assert (Hlen := filter_set_nth_end j (conns s) CSpawned CClosedByServer En eq_refl eq_refl).
      fold cs in Hlen.
      destruct (sd_pending s) eqn:Ep; simpl.
      * unfold open_count at 1. simpl. fold cs.
        destruct (List.length (filter is_open cs) =? 0)%nat eqn:Eo; simpl.
        -- constructor; simpl; auto; try discriminate.
        -- constructor; simpl; auto. intros _. split; [reflexivity|].
           apply Nat.eqb_neq in Eo. unfold open_count. simpl. fold cs. lia.
      * constructor; simpl; auto; try discriminate.
    + constructor; simpl; auto. intro Hp. destruct (I5 Hp) as [Hd Ho]. split; [exact Hd|].
      unfold open_count in *. simpl. rewrite (filter_set_nth_reg j (conns s) En). exact Ho.
  - destruct (done s) eqn:Ed; simpl; [exact HI|].
    unfold stop_serve. destruct (serving s); simpl;
      (constructor; simpl; auto; try discriminate;
       intro Hp; destruct (I5 Hp) as [Hd _]; congruence).
  - destruct (done s) eqn:Ed; simpl; [exact HI|].
    unfold stop_serve.
    destruct (serving s); destruct (open_count s =? 0)%nat eqn:Eo; simpl;
      constructor; simpl; auto; try discriminate;
      intros _; (split; [reflexivity|]); apply Nat.eqb_neq in Eo; unfold open_count in *; simpl; lia.
  - destruct (nth_error (conns s) k) as [[| | |]|] eqn:En; try exact HI.
    set (cs := set_nth k CFinished (conns s)).
    assert (Hlen := filter_set_nth_open k (conns s) En). fold cs in Hlen.
    destruct (sd_pending s) eqn:Ep; simpl.
    + unfold open_count at 1. simpl. fold cs.
      destruct (List.length (filter is_open cs) =? 0)%nat eqn:Eo; simpl.
      * constructor; simpl; auto; try discriminate.
      * constructor; simpl; auto. intros _. destruct (I5 eq_refl) as [Hd _].
        split; [exact Hd|]. apply Nat.eqb_neq in Eo. unfold open_count. simpl. fold cs. lia.
    + constructor; simpl; auto; try discriminate.
  - destruct (sd_pending s) eqn:Ep; simpl; [|exact HI].
    constructor; simpl; auto; try discriminate.
Qed.

Lemma run_cons s o l :
  run s (o :: l) = (fst (run (fst (step s o)) l), snd (step s o) :: snd (run (fst (step s o)) l)).
Proof.
  simpl. destruct (step s o) as [s1 b]. simpl. destruct (run s1 l) as [s2 bs]. reflexivity.
Qed.

Lemma run_st_cons s o l : run_st s (o :: l) = run_st (fst (step s o)) l.
Proof. unfold run_st. rewrite run_cons. reflexivity. Qed.

Lemma run_inv s l : Inv s -> Inv (run_st s l).
Proof.
  revert s. induction l as [|o l IH]; intros s H; [exact H|].
  rewrite run_st_cons. apply IH. apply step_inv. exact H.
Qed.

(* reachable from a fresh server, whether or not its listener's Close fails *)
Definition reachable (s : st) : Prop := exists e l, s = run_st (init_e e) l.

Lemma reachable_inv s : reachable s -> Inv s.
Proof. intros [e [l ->]]. apply run_inv. apply inv_init_e. Qed.

(* ---- the listener's fault is a parameter: no operation changes it ---- *)

Lemma step_lis_err s o : lis_err (fst (step s o)) = lis_err s.
Proof.
  destruct o as [[| |] | j | | | k |]; simpl;
    try (destruct (serving s && negb (lis_closed s)));
    try (destruct (done s));
    try (destruct (nth_error (conns s) j) as [[| | |]|]);
    try (destruct (nth_error (conns s) k) as [[| | |]|]);
    try (destruct (done s));
    try (destruct (sd_pending s)); simpl;
    try (destruct (_ =? _)%nat); simpl;
    try (unfold stop_serve; destruct (serving s)); simpl;
    try (destruct (_ =? _)%nat); simpl; auto.
Qed.

Lemma step_ok_ret s o : ok_ret (fst (step s o)) = ok_ret s.
Proof. unfold ok_ret. rewrite step_lis_err. reflexivity. Qed.

Lemma run_lis_err s l : lis_err (run_st s l) = lis_err s.
Proof.
  revert s. induction l as [|o l IH]; intros s; [reflexivity|].
  rewrite run_st_cons, IH. apply step_lis_err.
Qed.

Lemma run_ok_ret s l : ok_ret (run_st s l) = ok_ret s.
Proof. unfold ok_ret. rewrite run_lis_err. reflexivity. Qed.

(* ---- done is closed once and for all ---- *)

Lemma step_done s o : done s = true -> done (fst (step s o)) = true.
Proof.
  intro H. destruct o as [[| |] | j | | | k |]; simpl; rewrite ?H;
    try (destruct (serving s && negb (lis_closed s)));
    try (destruct (nth_error (conns s) j) as [[| | |]|]);
    try (destruct (nth_error (conns s) k) as [[| | |]|]);
    try (destruct (sd_pending s)); simpl;
    try (destruct (_ =? _)%nat); simpl; auto.
Qed.

Lemma run_done s l : done s = true -> done (run_st s l) = true.
Proof.
  revert s. induction l as [|o l IH]; intros s H; [exact H|].
  rewrite run_st_cons. apply IH. apply step_done. exact H.
Qed.

(* ---- Close ---- *)

Theorem close_first s :
  Inv s -> done s = false ->
  let s' := fst (step s OClose) in
  snd (step s OClose) = BRet (ok_ret s) /\
  done s' = true /\ lis_closed s' = true /\
  serving s' = false /\
  (serving s = true -> serve_ret s' = Some RNil) /\
  (serving s = false -> serve_ret s' = serve_ret s) /\
  conns s' = close_all (conns s) /\
  Forall (fun c => c <> COpen) (conns s').
Proof.
  intros _ Hd. simpl. rewrite Hd. unfold stop_serve.
  destruct (serving s); simpl; repeat split; auto; try discriminate;
    apply close_all_none_open.
Qed.

Theorem second_call s l o :
  done s = true -> (o = OClose \/ o = OShutdown) ->
  step (run_st s l) o = (run_st s l, BRet RServerClosed).
Proof.
  intros Hd Ho. assert (H := run_done s l Hd).
  destruct Ho as [-> | ->]; simpl; rewrite H; reflexivity.
Qed.

(* no connection is accepted any more once done is closed *)
Lemma accept_after_done s r : Inv s -> done s = true -> step s (OAccept r) = (s, BSkip).
Proof.
  intros [I1 I2 _ _ _] Hd. simpl. rewrite I2, Hd. rewrite andb_false_r. reflexivity.
Qed.

(* ---- Shutdown ---- *)

Theorem shutdown_first s :
  Inv s -> done s = false ->
  let s' := fst (step s OShutdown) in
  done s' = true /\ lis_closed s' = true /\ serving s' = false /\
  (serving s = true -> serve_ret s' = Some RNil) /\
  conns s' = conns s /\
  (open_count s = 0%nat -> snd (step s OShutdown) = BRet (ok_ret s) /\ sd_pending s' = false) /\
  ((open_count s > 0)%nat -> snd (step s OShutdown) = BPending /\ sd_pending s' = true).
Proof.
  intros _ Hd. simpl. rewrite Hd. unfold stop_serve.
  destruct (serving s); destruct (open_count s =? 0)%nat eqn:Eo; simpl;
    repeat split; auto; try discriminate; intros;
    try (apply Nat.eqb_eq in Eo; lia); try (apply Nat.eqb_neq in Eo; lia).
Qed.

(* what each operation does to a blocked Shutdown *)
Theorem shutdown_pending_step s o :
  Inv s -> sd_pending s = true ->
  let s' := fst (step s o) in
  let b := snd (step s o) in
  match o with
  | OExpire => b = BShutdownRet RCtxErr /\ sd_pending s' = false
  | OFinish k =>
      match nth_error (conns s) k with
      | Some COpen =>
          if (open_count s =? 1)%nat
          then b = BShutdownRet (ok_ret s) /\ sd_pending s' = false /\ open_count s' = 0%nat
          else b = BNone /\ sd_pending s' = true /\ S (open_count s') = open_count s
      | _ => b = BSkip /\ s' = s
      end
  | OClose | OShutdown => b = BRet RServerClosed /\ s' = s
  | OAccept _ => b = BSkip /\ s' = s
  | ORegister k =>
      (* done is set: the handler ends the connection instead of serving it *)
      match nth_error (conns s) k with
      | Some CSpawned =>
          nth_error (conns s') k = Some CClosedByServer /\
          if (open_count s =? 1)%nat
          then b = BShutdownRet (ok_ret s) /\ sd_pending s' = false /\ open_count s' = 0%nat
          else b = BNone /\ sd_pending s' = true /\ S (open_count s') = open_count s
      | _ => b = BSkip /\ s' = s
      end
  end.
Proof.
  intros HI Hp. destruct (inv_pending s HI Hp) as [Hd Ho].
  destruct o as [r | j | | | k |]; simpl.
  - rewrite (inv_lis s HI), Hd, andb_false_r. split; reflexivity.
  - destruct (nth_error (conns s) j) as [[| | |]|] eqn:En; try (split; reflexivity).
    assert (Hlen := filter_set_nth_end j (conns s) CSpawned CClosedByServer En eq_refl eq_refl).
    rewrite Hd, Hp. simpl. unfold open_count in *. simpl.
    destruct (List.length (filter is_open (set_nth j CClosedByServer (conns s))) =? 0)%nat eqn:E0.
    + apply Nat.eqb_eq in E0. rewrite Hlen, E0. simpl. repeat split; auto.
      apply nth_error_set_nth_same. rewrite En. discriminate.
    + apply Nat.eqb_neq in E0.
      destruct (List.length (filter is_open (conns s)) =? 1)%nat eqn:E1.
      * apply Nat.eqb_eq in E1. lia.
      * simpl. repeat split; auto.
        apply nth_error_set_nth_same. rewrite En. discriminate.
  - rewrite Hd. split; reflexivity.
  - rewrite Hd. split; reflexivity.
  - destruct (nth_error (conns s) k) as [[| | |]|] eqn:En; try (split; reflexivity).
    assert (Hlen := filter_set_nth_open k (conns s) En).
    rewrite Hp. simpl. unfold open_count in *. simpl.
    destruct (List.length (filter is_open (set_nth k CFinished (conns s))) =? 0)%nat eqn:E0.
    + apply Nat.eqb_eq in E0. rewrite Hlen, E0. simpl. repeat split; auto.
    + apply Nat.eqb_neq in E0.
      destruct (List.length (filter is_open (conns s)) =? 1)%nat eqn:E1.
      * apply Nat.eqb_eq in E1. lia.
      * simpl. repeat split; auto.
  - rewrite Hp. simpl. split; reflexivity.
Qed.

(* a Shutdown that is not blocked (any more) never reports again *)
Lemma no_report_when_not_pending s o :
  Inv s -> done s = true -> sd_pending s = false ->
  sd_pending (fst (step s o)) = false /\
  (forall r, snd (step s o) <> BShutdownRet r) /\ snd (step s o) <> BPending.
Proof.
  intros HI Hd Hp. destruct o as [r | j | | | k |]; simpl.
  - rewrite (inv_lis s HI), Hd, andb_false_r. simpl. repeat split; auto; discriminate.
  - destruct (nth_error (conns s) j) as [[| | |]|]; simpl; try (repeat split; auto; discriminate).
    rewrite Hd, Hp. simpl. repeat split; auto; discriminate.
  - rewrite Hd. simpl. repeat split; auto; discriminate.
  - rewrite Hd. simpl. repeat split; auto; discriminate.
  - destruct (nth_error (conns s) k) as [[| | |]|]; simpl; try (repeat split; auto; discriminate).
    rewrite Hp. simpl. repeat split; auto; discriminate.
  - rewrite Hp. simpl. repeat split; auto; discriminate.
Qed.

Fixpoint has_expire (l : list op) : bool :=
  match l with [] => false | OExpire :: _ => true | _ :: r => has_expire r end.

(* once the blocked Shutdown has returned nil (nothing open, nothing
   pending), nothing is reported any more *)
Lemma shutdown_returned_rest l :
  forall s, Inv s -> done s = true -> sd_pending s = false ->
  open_count s = 0%nat -> has_expire l = false ->
  sd_pending (run_st s l) = false /\ open_count (run_st s l) = 0%nat /\
  forall r, ~ In (BShutdownRet r) (snd (run s l)).
Proof.
  induction l as [|o0 l0 IH0]; intros s0 HI0 Hd0 Hp0 Ho0 He0.
  - simpl. repeat split; auto.
  - rewrite run_st_cons, run_cons. cbn [snd fst].
    destruct (no_report_when_not_pending s0 o0 HI0 Hd0 Hp0) as (P1 & P2 & P3).
    assert (Ho1 : open_count (fst (step s0 o0)) = 0%nat).
    { destruct o0 as [r0 | j0 | | | k0 |]; simpl.
      - rewrite (inv_lis s0 HI0), Hd0, andb_false_r. exact Ho0.
      - destruct (nth_error (conns s0) j0) as [[| | |]|] eqn:Ej0; try exact Ho0.
        exfalso.
        assert (Hl := filter_set_nth_end j0 (conns s0) CSpawned CClosedByServer Ej0 eq_refl eq_refl).
        unfold open_count in Ho0. lia.
      - rewrite Hd0. exact Ho0.
      - rewrite Hd0. exact Ho0.
      - destruct (nth_error (conns s0) k0) as [[| | |]|] eqn:En0; try exact Ho0.
        exfalso. assert (Hl := filter_set_nth_open k0 (conns s0) En0).
        unfold open_count in Ho0. lia.
      - rewrite Hp0. exact Ho0. }
    assert (He1 : has_expire l0 = false).
    { destruct o0; simpl in He0; try exact He0. discriminate He0. }
    destruct (IH0 (fst (step s0 o0)) (step_inv s0 o0 HI0) (step_done s0 o0 Hd0) P1 Ho1 He1)
      as (Q1 & Q2 & Q3).
    repeat split; auto. intros r [F | F]; [exact (P2 r F) | exact (Q3 r F)].
Qed.

(* as long as the context does not expire, a blocked Shutdown waits while a
   connection is active and returns nil as soon as none is *)
Theorem shutdown_waits s l :
  Inv s -> sd_pending s = true -> has_expire l = false ->
  let s' := run_st s l in
  let bs := snd (run s l) in
  ~ In (BShutdownRet RCtxErr) bs /\
  ((sd_pending s' = true /\ (open_count s' > 0)%nat /\ ~ In (BShutdownRet (ok_ret s)) bs) \/
   (sd_pending s' = false /\ open_count s' = 0%nat /\ In (BShutdownRet (ok_ret s)) bs)).
Proof.
  revert s. induction l as [|o l IH]; intros s HI Hp He.
  - simpl. split; [intros []|]. left. destruct (inv_pending s HI Hp) as [_ Ho]. auto.
  - rewrite run_st_cons, run_cons. cbn [snd fst].
    assert (HS := shutdown_pending_step s o HI Hp). cbv zeta in HS.
    assert (HI' := step_inv s o HI).
    assert (Hd' : done (fst (step s o)) = true).
    { apply step_done. exact (proj1 (inv_pending s HI Hp)). }
    (* the three shapes a step can have while Shutdown is blocked *)
    assert (Hsame : snd (step s o) <> BShutdownRet RCtxErr -> snd (step s o) <> BShutdownRet (ok_ret s) ->
                    fst (step s o) = s -> has_expire l = false ->
      ~ In (BShutdownRet RCtxErr) (snd (step s o) :: snd (run (fst (step s o)) l)) /\
      ((sd_pending (run_st (fst (step s o)) l) = true /\ (open_count (run_st (fst (step s o)) l) > 0)%nat /\
        ~ In (BShutdownRet (ok_ret s)) (snd (step s o) :: snd (run (fst (step s o)) l))) \/
       (sd_pending (run_st (fst (step s o)) l) = false /\ open_count (run_st (fst (step s o)) l) = 0%nat /\
        In (BShutdownRet (ok_ret s)) (snd (step s o) :: snd (run (fst (step s o)) l))))).
    { intros Hb1 Hb2 Hs He'. rewrite Hs.
      destruct (IH s HI Hp He') as [N1 N2]. split.
      - intros [F | F]; [exact (Hb1 F) | exact (N1 F)].
      - destruct N2 as [(A & B & C) | (A & B & C)]; [left | right]; repeat split; auto.
        + intros [F | F]; [exact (Hb2 F) | exact (C F)].
        + right. exact C. }
    assert (Hgo : snd (step s o) = BNone -> sd_pending (fst (step s o)) = true -> has_expire l = false ->
      ~ In (BShutdownRet RCtxErr) (snd (step s o) :: snd (run (fst (step s o)) l)) /\
      ((sd_pending (run_st (fst (step s o)) l) = true /\ (open_count (run_st (fst (step s o)) l) > 0)%nat /\
        ~ In (BShutdownRet (ok_ret s)) (snd (step s o) :: snd (run (fst (step s o)) l))) \/
       (sd_pending (run_st (fst (step s o)) l) = false /\ open_count (run_st (fst (step s o)) l) = 0%nat /\
        In (BShutdownRet (ok_ret s)) (snd (step s o) :: snd (run (fst (step s o)) l))))).
    { intros Hb Hs He'. rewrite Hb.
      destruct (IH _ HI' Hs He') as [N1 N2]. rewrite step_ok_ret in N2. split.
      - intros [F | F]; [discriminate F | exact (N1 F)].
      - destruct N2 as [(A & B & C) | (A & B & C)]; [left | right]; repeat split; auto.
        + intros [F | F]; [discriminate F | exact (C F)].
        + right. exact C. }
    assert (Hret : snd (step s o) = BShutdownRet (ok_ret s) -> sd_pending (fst (step s o)) = false ->
                   open_count (fst (step s o)) = 0%nat -> has_expire l = false ->
      ~ In (BShutdownRet RCtxErr) (snd (step s o) :: snd (run (fst (step s o)) l)) /\
      ((sd_pending (run_st (fst (step s o)) l) = true /\ (open_count (run_st (fst (step s o)) l) > 0)%nat /\
        ~ In (BShutdownRet (ok_ret s)) (snd (step s o) :: snd (run (fst (step s o)) l))) \/
       (sd_pending (run_st (fst (step s o)) l) = false /\ open_count (run_st (fst (step s o)) l) = 0%nat /\
        In (BShutdownRet (ok_ret s)) (snd (step s o) :: snd (run (fst (step s o)) l))))).
    { intros Hb Hs Ho He'. rewrite Hb.
      destruct (shutdown_returned_rest l _ HI' Hd' Hs Ho He') as (Q1 & Q2 & Q3).
      split.
      - intros [F | F]; [unfold ok_ret in F; destruct (lis_err s); discriminate F | exact (Q3 _ F)].
      - right. repeat split; auto. left. reflexivity. }
    destruct o as [r | j | | | k |]; simpl in He; try discriminate He.
    + destruct HS as [Hb Hs]. apply Hsame; auto; rewrite Hb; discriminate.
    + destruct (nth_error (conns s) j) as [[| | |]|] eqn:En.
      2-5: destruct HS as [Hb Hs]; apply Hsame; auto; rewrite Hb; discriminate.
      destruct HS as [_ HS]. destruct (open_count s =? 1)%nat eqn:E1.
      * destruct HS as (Hb & Hs & Ho). apply Hret; auto.
      * destruct HS as (Hb & Hs & Ho). apply Hgo; auto.
    + destruct HS as [Hb Hs]. apply Hsame; auto; rewrite Hb; discriminate.
    + destruct HS as [Hb Hs]. apply Hsame; auto; rewrite Hb; discriminate.
    + destruct (nth_error (conns s) k) as [[| | |]|] eqn:En.
      1,3-5: destruct HS as [Hb Hs]; apply Hsame; auto; rewrite Hb; discriminate.
      destruct (open_count s =? 1)%nat eqn:E1.
      * destruct HS as (Hb & Hs & Ho). apply Hret; auto.
      * destruct HS as (Hb & Hs & Ho). apply Hgo; auto.
Qed.

(* ---- Accept errors ---- *)

Definition is_temp_or_conn (o : op) : bool :=
  match o with OAccept ATemp | OAccept AConn | ORegister _ => true | _ => false end.

Fixpoint count_temp (l : list op) : nat :=
  match l with
  | [] => O
  | OAccept ATemp :: r => S (count_temp r)
  | _ :: r => count_temp r
  end.

Lemma delays_from_ok d n : d = 0 \/ delay_ok d -> Forall delay_ok (delays_from d n).
Proof.
  revert d. induction n as [|n IH]; intros d H; simpl; constructor.
  - apply next_delay_ok. exact H.
  - apply IH. right. apply next_delay_ok. exact H.
Qed.

(* Serve survives every run of temporary errors (interleaved with any
   number of successful accepts, which do NOT reset the delay): it does not
   return, and it sleeps exactly the doubling sequence *)
Theorem temp_errors_survived s l :
  Inv s -> serving s = true -> forallb is_temp_or_conn l = true ->
  let s' := run_st s l in
  serving s' = true /\ serve_ret s' = serve_ret s /\ done s' = false /\
  sleeps s' = sleeps s ++ delays_from (delay s) (count_temp l) /\
  ~ (exists r, In (BServeRet r) (snd (run s l))).
Proof.
  revert s. induction l as [|o l IH]; intros s HI Hs Hl.
  - simpl. rewrite app_nil_r. repeat split; auto.
    + exact (inv_serving s HI Hs).
    + intros [r []].
  - simpl in Hl. apply andb_prop in Hl. destruct Hl as [Ho Hl].
    rewrite run_st_cons, run_cons. cbn [snd fst].
    assert (Hd := inv_serving s HI Hs).
    assert (Hlc : lis_closed s = false) by (rewrite (inv_lis s HI); exact Hd).
    destruct o as [[| |] | j | | | |]; simpl in Ho; try discriminate Ho.
    3: { (* a registration *)
      assert (E : serving (fst (step s (ORegister j))) = serving s /\
                  serve_ret (fst (step s (ORegister j))) = serve_ret s /\
                  delay (fst (step s (ORegister j))) = delay s /\
                  sleeps (fst (step s (ORegister j))) = sleeps s /\
                  forall r, snd (step s (ORegister j)) <> BServeRet r).
      { simpl. rewrite Hd.
        destruct (nth_error (conns s) j) as [[| | |]|]; simpl; repeat split; discriminate. }
      destruct E as (E1 & E2 & E3 & E4 & E5).
      assert (HI' := step_inv s (ORegister j) HI).
      assert (Hs' : serving (fst (step s (ORegister j))) = true) by (rewrite E1; exact Hs).
      destruct (IH _ HI' Hs' Hl) as (A & B & C & D & F).
      rewrite E2 in B. rewrite E3, E4 in D.
      repeat split; auto.
      intros [r [G | G]]; [exact (E5 r G) | apply F; exists r; exact G]. }
    + (* a connection *)
      assert (E : step s (OAccept AConn) =
                  (mkSt true (serve_ret s) (done s) (lis_closed s) (delay s) (sleeps s)
                        (conns s ++ [CSpawned]) (sd_pending s) (lis_err s), BAccepted)).
      { simpl. rewrite Hs, Hlc. reflexivity. }
      assert (HI' := step_inv s (OAccept AConn) HI). rewrite E in *. cbn [fst snd] in *.
      destruct (IH _ HI' eq_refl Hl) as (A & B & C & D & F). cbn [serve_ret sleeps delay] in *.
      repeat split; auto.
      intros [r [G | G]]; [discriminate G | apply F; exists r; exact G].
    + (* a temporary error *)
      assert (E : step s (OAccept ATemp) =
                  (mkSt true (serve_ret s) (done s) (lis_closed s) (next_delay (delay s))
                        (sleeps s ++ [next_delay (delay s)]) (conns s) (sd_pending s) (lis_err s),
                   BDelay (next_delay (delay s)))).
      { simpl. rewrite Hs, Hlc, Hd. reflexivity. }
      assert (HI' := step_inv s (OAccept ATemp) HI). rewrite E in *. cbn [fst snd] in *.
      destruct (IH _ HI' eq_refl Hl) as (A & B & C & D & F). cbn [serve_ret sleeps delay] in *.
      repeat split; auto.
      * rewrite D. rewrite <- app_assoc. reflexivity.
      * intros [r [G | G]]; [discriminate G | apply F; exists r; exact G].
Qed.

(* each back-off delay is between 5 ms and 1 s; the first is 5 ms; each
   next one is the double of the previous one, capped at 1 s *)
Theorem delays_shape n :
  Forall delay_ok (delays_from 0 n) /\
  (forall k d, nth_error (delays_from 0 n) k = Some d -> d = N.min (5 * 2 ^ N.of_nat k) 1000).
Proof.
  split; [apply delays_from_ok; left; reflexivity|].
  assert (G : forall n d0 k d j, delay_ok d0 ->
            nth_error (delays_from d0 n) k = Some d ->
            d0 = N.min (5 * 2 ^ N.of_nat j) 1000 ->
            d = N.min (5 * 2 ^ N.of_nat (S (j + k))) 1000).
  { clear. induction n as [|n IH]; intros d0 k d j Hok Hn Hj; [destruct k; discriminate Hn|].
    simpl in Hn. destruct k as [|k]; simpl in Hn.
    - inversion Hn; subst d. rewrite next_delay_doubles by exact Hok.
      rewrite Nat.add_0_r, Nat2N.inj_succ, N.pow_succ_r by lia.
      rewrite Hj. lia.
    - replace (S (j + S k)) with (S (S j + k)) by lia.
      apply (IH (next_delay d0) k d (S j)).
      + apply next_delay_ok. right. exact Hok.
      + exact Hn.
      + rewrite next_delay_doubles by exact Hok.
        rewrite Nat2N.inj_succ, N.pow_succ_r by lia. rewrite Hj. lia. }
  intros k d Hn. destruct n as [|n]; [destruct k; discriminate Hn|].
  simpl in Hn. destruct k as [|k]; simpl in Hn.
  - inversion Hn. reflexivity.
  - change (next_delay 0) with 5 in Hn.
    assert (Hok : delay_ok 5) by (unfold delay_ok; lia).
    exact (G n 5 k d 0%nat Hok Hn eq_refl).
Qed.

(* Serve returns exactly at the first permanent Accept error (with that
   error) or when done is closed by Close / Shutdown (with nil) *)
Theorem serve_returns_exactly s o :
  Inv s -> serving s = true ->
  let s' := fst (step s o) in
  match o with
  | OAccept APerm => serving s' = false /\ serve_ret s' = Some RAcceptErr /\
                     snd (step s o) = BServeRet RAcceptErr
  | OClose | OShutdown => serving s' = false /\ serve_ret s' = Some RNil
  | _ => serving s' = true /\ serve_ret s' = serve_ret s
  end.
Proof.
  intros HI Hs. assert (Hd := inv_serving s HI Hs).
  assert (Hlc : lis_closed s = false) by (rewrite (inv_lis s HI); exact Hd).
  destruct o as [[| |] | j | | | k |]; simpl; rewrite ?Hs, ?Hlc, ?Hd; simpl; auto.
  - destruct (nth_error (conns s) j) as [[| | |]|]; simpl; auto.
  - unfold stop_serve. rewrite Hs. simpl. auto.
  - unfold stop_serve. rewrite Hs. destruct (open_count s =? 0)%nat; simpl; auto.
  - destruct (nth_error (conns s) k) as [[| | |]|]; simpl; auto.
    destruct (sd_pending s && _); simpl; auto.
  - destruct (sd_pending s); simpl; auto.
Qed.

(* ---- the three statements of C20's second half, for reachable states ---- *)

Theorem C20_close_once_lemma s :
  reachable s -> done s = false ->
  let s' := fst (step s OClose) in
  snd (step s OClose) = BRet (ok_ret s) /\
  serving s' = false /\
  (serving s = true -> serve_ret s' = Some RNil) /\
  conns s' = close_all (conns s) /\ Forall (fun c => c <> COpen) (conns s') /\
  forall l o, (o = OClose \/ o = OShutdown) ->
              snd (step (run_st s' l) o) = BRet RServerClosed.
Proof.
  intros Hr Hd s'. assert (HI := reachable_inv s Hr).
  destruct (close_first s HI Hd) as (A & B & C & D & E & F & G & H).
  repeat split; auto.
  intros l o Ho. fold s' in B. rewrite (second_call s' l o B Ho). reflexivity.
Qed.

Theorem C20_shutdown_lemma s :
  reachable s -> done s = false ->
  let s' := fst (step s OShutdown) in
  (* stops accepting, interrupts no connection *)
  serving s' = false /\ (serving s = true -> serve_ret s' = Some RNil) /\
  conns s' = conns s /\
  (forall l r, snd (step (run_st s' l) (OAccept r)) = BSkip) /\
  (* no active connection: returns nil at once *)
  (open_count s = 0%nat -> snd (step s OShutdown) = BRet (ok_ret s)) /\
  (* otherwise it blocks; it returns ctx.Err() if the context expires first ... *)
  ((open_count s > 0)%nat ->
   snd (step s OShutdown) = BPending /\
   (forall l, has_expire l = false ->
      let s'' := run_st s' l in
      (sd_pending s'' = true /\ (open_count s'' > 0)%nat /\
       snd (step s'' OExpire) = BShutdownRet RCtxErr) \/
   (* ... and nil as soon as the active connections have finished *)
      (sd_pending s'' = false /\ open_count s'' = 0%nat /\
       In (BShutdownRet (ok_ret s)) (snd (run s' l)) /\
       ~ In (BShutdownRet RCtxErr) (snd (run s' l))))) /\
  (* a subsequent Close or Shutdown reports that the server is closed *)
  (forall l o, (o = OClose \/ o = OShutdown) ->
               snd (step (run_st s' l) o) = BRet RServerClosed).
Proof.
  intros Hr Hd s'. assert (HI := reachable_inv s Hr).
  assert (HI' : Inv s') by (apply step_inv; exact HI).
  destruct (shutdown_first s HI Hd) as (A & B & C & D & E & F & G).
  fold s' in A, B, C, D, E, F, G.
  split; [exact C|]. split; [exact D|]. split; [exact E|].
  split.
  { intros l r.
    apply (f_equal snd (accept_after_done (run_st s' l) r (run_inv s' l HI') (run_done s' l A))). }
  split.
  { intro H0. exact (proj1 (F H0)). }
  split.
  { intro H0. split; [exact (proj1 (G H0))|].
    intros l He s''. destruct (G H0) as [_ Hp].
    assert (Hok : ok_ret s' = ok_ret s) by apply step_ok_ret.
    destruct (shutdown_waits s' l HI' Hp He) as [N1 [(P & Q & R) | (P & Q & R)]]; rewrite Hok in R.
    - left. repeat split; auto. subst s''. simpl. rewrite P. reflexivity.
    - right. repeat split; auto. }
  intros l o Ho. rewrite (second_call s' l o A Ho). reflexivity.
Qed.

Theorem C20_accept_errors_lemma s l :
  reachable s -> serving s = true -> forallb is_temp_or_conn l = true ->
  let s' := run_st s l in
  (* Serve does not return *)
  serving s' = true /\ ~ (exists r, In (BServeRet r) (snd (run s l))) /\
  (* it sleeps the doubling sequence, never reset by a successful Accept *)
  sleeps s' = sleeps s ++ delays_from (delay s) (count_temp l) /\
  Forall delay_ok (delays_from (delay s) (count_temp l)) /\
  (* and then returns exactly at a permanent error / Close / Shutdown *)
  (serving (fst (step s' (OAccept APerm))) = false /\
   serve_ret (fst (step s' (OAccept APerm))) = Some RAcceptErr) /\
  (serving (fst (step s' OClose)) = false /\ serve_ret (fst (step s' OClose)) = Some RNil) /\
  (serving (fst (step s' OShutdown)) = false /\ serve_ret (fst (step s' OShutdown)) = Some RNil).
Proof.
  intros Hr Hs Hl s'. assert (HI := reachable_inv s Hr).
  destruct (temp_errors_survived s l HI Hs Hl) as (A & B & C & D & E).
  fold s' in A, B, C, D.
  assert (HI' : Inv s') by (apply run_inv; exact HI).
  repeat split; auto.
  - apply delays_from_ok. exact (inv_delay s HI).
  - exact (proj1 (serve_returns_exactly s' (OAccept APerm) HI' A)).
  - exact (proj1 (proj2 (serve_returns_exactly s' (OAccept APerm) HI' A))).
  - exact (proj1 (serve_returns_exactly s' OClose HI' A)).
  - exact (proj2 (serve_returns_exactly s' OClose HI' A)).
  - exact (proj1 (serve_returns_exactly s' OShutdown HI' A)).
  - exact (proj2 (serve_returns_exactly s' OShutdown HI' A)).
Qed.

(* non-vacuity *)
Example life_example :
  snd (run init [OAccept ATemp; OAccept AConn; ORegister 0; OAccept ATemp; OAccept ATemp;
                 OAccept AConn; ORegister 1;
                 OShutdown; OClose; OFinish 0; OFinish 1; OAccept AConn])
  = [BDelay 5; BAccepted; BNone; BDelay 10; BDelay 20; BAccepted; BNone;
     BPending; BRet RServerClosed; BNone; BShutdownRet RNil; BSkip].
Proof. reflexivity. Qed.

Example life_example_cap :
  sleeps (run_st init (repeat (OAccept ATemp) 10)) = [5; 10; 20; 40; 80; 160; 320; 640; 1000; 1000].
Proof. reflexivity. Qed.

Example life_example_close :
  snd (run init [OAccept AConn; ORegister 0; OAccept AConn; ORegister 1; OFinish 0; OClose;
                 OShutdown; OExpire]) =
  [BAccepted; BNone; BAccepted; BNone; BNone; BRet RNil; BRet RServerClosed; BSkip] /\
  conns (run_st init [OAccept AConn; ORegister 0; OAccept AConn; ORegister 1; OFinish 0; OClose])
  = [CFinished; CClosedByServer].
Proof. split; reflexivity. Qed.

(* ---- Close ends EVERY connection, including one in the window between
   Accept's return and its handler's registration (DESIGN F28, repaired) ---- *)

(* the server has been closed by Close: done is set and no connection is
   registered-and-served *)
Definition closed_state (s : st) : Prop :=
  done s = true /\ Forall (fun c => c <> COpen) (conns s).

(* what one operation does to the connections of a stopped server *)
Lemma stopped_step_conns s o :
  Inv s -> done s = true ->
  let s' := fst (step s o) in
  List.length (conns s') = List.length (conns s) /\
  forall j, nth_error (conns s') j =
    match o with
    | ORegister k =>
        if (j =? k)%nat then
          match nth_error (conns s) j with
          | Some CSpawned => Some CClosedByServer
          | x => x
          end
        else nth_error (conns s) j
    | OFinish k =>
        if (j =? k)%nat then
          match nth_error (conns s) j with
          | Some COpen => Some CFinished
          | x => x
          end
        else nth_error (conns s) j
    | _ => nth_error (conns s) j
    end.
Proof.
  intros HI Hd. destruct o as [r | k | | | k |]; simpl.
  - rewrite (inv_lis s HI), Hd, andb_false_r. split; reflexivity.
  - rewrite Hd. destruct (nth_error (conns s) k) as [[| | |]|] eqn:En.
    2-5: split; [reflexivity|]; intro j; cbn [fst]; destruct (j =? k)%nat eqn:Ej;
         [apply Nat.eqb_eq in Ej; subst j; rewrite En|]; reflexivity.
    assert (G : List.length (set_nth k CClosedByServer (conns s)) = List.length (conns s) /\
                forall j, nth_error (set_nth k CClosedByServer (conns s)) j =
                  if (j =? k)%nat then
                    match nth_error (conns s) j with Some CSpawned => Some CClosedByServer | x => x end
                  else nth_error (conns s) j).
    { split; [apply set_nth_length|]. intro j. destruct (j =? k)%nat eqn:Ej.
      - apply Nat.eqb_eq in Ej. subst j. rewrite En. apply nth_error_set_nth_same.
        rewrite En. discriminate.
      - apply Nat.eqb_neq in Ej. apply nth_error_set_nth_other. exact Ej. }
    destruct (sd_pending s && _); simpl; exact G.
  - rewrite Hd. split; reflexivity.
  - rewrite Hd. split; reflexivity.
  - destruct (nth_error (conns s) k) as [[| | |]|] eqn:En.
    1,3-5: split; [reflexivity|]; intro j; cbn [fst]; destruct (j =? k)%nat eqn:Ej;
           [apply Nat.eqb_eq in Ej; subst j; rewrite En|]; reflexivity.
    assert (G : List.length (set_nth k CFinished (conns s)) = List.length (conns s) /\
                forall j, nth_error (set_nth k CFinished (conns s)) j =
                  if (j =? k)%nat then
                    match nth_error (conns s) j with Some COpen => Some CFinished | x => x end
                  else nth_error (conns s) j).
    { split; [apply set_nth_length|]. intro j. destruct (j =? k)%nat eqn:Ej.
      - apply Nat.eqb_eq in Ej. subst j. rewrite En. apply nth_error_set_nth_same.
        rewrite En. discriminate.
      - apply Nat.eqb_neq in Ej. apply nth_error_set_nth_other. exact Ej. }
    destruct (sd_pending s && _); simpl; exact G.
  - destruct (sd_pending s); split; reflexivity.
Qed.

Lemma Forall_nth_error {A} (P : A -> Prop) (l : list A) :
  (forall j c, nth_error l j = Some c -> P c) <-> Forall P l.
Proof.
  split.
  - intro H. apply Forall_forall. intros c Hc. destruct (In_nth_error l c Hc) as [j Hj].
    exact (H j c Hj).
  - intros H j c Hj. rewrite Forall_forall in H. apply H. exact (nth_error_In l j Hj).
Qed.

(* once the server is stopped (Close OR Shutdown), no connection is taken
   into service any more: a connection that is served afterwards was served
   before *)
Theorem no_service_after_stop s o j :
  Inv s -> done s = true ->
  nth_error (conns (fst (step s o))) j = Some COpen -> nth_error (conns s) j = Some COpen.
Proof.
  intros HI Hd H. destruct (stopped_step_conns s o HI Hd) as [_ Hn]. rewrite Hn in H.
  destruct o as [r | k | | | k |]; try exact H.
  - destruct (j =? k)%nat; [|exact H].
    destruct (nth_error (conns s) j) as [[| | |]|]; try exact H; discriminate H.
  - destruct (j =? k)%nat; [|exact H].
    destruct (nth_error (conns s) j) as [[| | |]|]; try exact H; discriminate H.
Qed.

Theorem C20_no_service_after_stop_lemma s o j :
  reachable s -> done s = true ->
  nth_error (conns (fst (step s o))) j = Some COpen -> nth_error (conns s) j = Some COpen.
Proof. intro Hr. apply no_service_after_stop. apply reachable_inv. exact Hr. Qed.

Lemma closed_state_step s o : Inv s -> closed_state s -> closed_state (fst (step s o)).
Proof.
  intros HI [Hd Hc]. split; [apply step_done; exact Hd|].
  apply Forall_nth_error. intros j c Hj Ec. subst c.
  apply (no_service_after_stop s o j HI Hd) in Hj.
  rewrite <- Forall_nth_error in Hc. exact (Hc j COpen Hj eq_refl).
Qed.

Lemma closed_state_run l : forall s, Inv s -> closed_state s -> closed_state (run_st s l).
Proof.
  induction l as [|o l IH]; intros s HI Hc; [exact Hc|].
  rewrite run_st_cons. apply IH; [apply step_inv; exact HI | apply closed_state_step; assumption].
Qed.

(* in a closed state a connection that has ended stays as it is ... *)
Lemma closed_state_ended_stays l : forall s j c,
  Inv s -> closed_state s -> nth_error (conns s) j = Some c -> is_open c = false ->
  nth_error (conns (run_st s l)) j = Some c.
Proof.
  induction l as [|o l IH]; intros s j c HI Hc Hj Ho; [exact Hj|].
  rewrite run_st_cons. apply IH; [apply step_inv; exact HI | apply closed_state_step; assumption | | exact Ho].
  destruct (stopped_step_conns s o HI (proj1 Hc)) as [_ Hn]. rewrite Hn.
  destruct o as [r | k | | | k |]; try exact Hj.
  - destruct (j =? k)%nat; [|exact Hj]. rewrite Hj. destruct c; try reflexivity; discriminate Ho.
  - destruct (j =? k)%nat; [|exact Hj]. rewrite Hj. destruct c; try reflexivity; discriminate Ho.
Qed.

(* ... no connection is added, and a connection whose handler runs ends *)
Lemma closed_state_length l : forall s,
  Inv s -> closed_state s -> List.length (conns (run_st s l)) = List.length (conns s).
Proof.
  induction l as [|o l IH]; intros s HI Hc; [reflexivity|].
  rewrite run_st_cons. rewrite IH; [| apply step_inv; exact HI | apply closed_state_step; assumption].
  exact (proj1 (stopped_step_conns s o HI (proj1 Hc))).
Qed.

Lemma closed_state_registered_ends l : forall s j c,
  Inv s -> closed_state s -> In (ORegister j) l ->
  nth_error (conns (run_st s l)) j = Some c -> is_open c = false.
Proof.
  induction l as [|o l IH]; intros s j c HI Hc Hin Hj; [destruct Hin|].
  rewrite run_st_cons in Hj.
  assert (HI' := step_inv s o HI). assert (Hc' := closed_state_step s o HI Hc).
  destruct Hin as [-> | Hin]; [|exact (IH _ j c HI' Hc' Hin Hj)].
  (* the handler of connection j runs now *)
  destruct (stopped_step_conns s (ORegister j) HI (proj1 Hc)) as [Hlen Hn].
  specialize (Hn j). rewrite Nat.eqb_refl in Hn.
  destruct (nth_error (conns (fst (step s (ORegister j)))) j) as [c1|] eqn:E1.
  - assert (Ho1 : is_open c1 = false).
    { destruct (nth_error (conns s) j) as [[| | |]|] eqn:E0; inversion Hn; try reflexivity.
      exfalso. destruct Hc as [_ Hf]. rewrite <- Forall_nth_error in Hf. exact (Hf j COpen E0 eq_refl). }
    rewrite (closed_state_ended_stays l _ j c1 HI' Hc' E1 Ho1) in Hj. inversion Hj; subst c. exact Ho1.
  - (* no such connection: none appears later *)
    exfalso. apply nth_error_None in E1.
    assert (Hl := closed_state_length l _ HI' Hc').
    assert (Hs : nth_error (conns (run_st (fst (step s (ORegister j))) l)) j <> None) by (rewrite Hj; discriminate).
    apply nth_error_Some in Hs. lia.
Qed.

Lemma open_count_zero s :
  (forall j c, nth_error (conns s) j = Some c -> is_open c = false) -> open_count s = 0%nat.
Proof.
  unfold open_count. intro H. apply Forall_nth_error in H.
  induction H as [|c l Hc _ IH]; [reflexivity|]. simpl. rewrite Hc. exact IH.
Qed.

(* Close ends every connection, whatever the order of Close and the
   registrations.  For every operation sequence l1 from init that leaves the
   server open, Close, and every continuation l2:
   (1) nothing is accepted any more;
   (2) NO connection is ever (again) registered and served - in particular
       not one whose handler was spawned before Close and registers after it;
   (3) a connection that was registered when Close ran is ended by Close, a
       connection in the window is ended as soon as its handler runs, and
       both stay ended;
   (4) once every handler spawned before Close has run, nothing is open
       (no handler goroutine is left: s.wg is at zero). *)
Theorem C20_close_ends_every_connection_lemma e l1 l2 :
  let s := run_st (init_e e) l1 in
  done s = false ->
  let s' := run_st (fst (step s OClose)) l2 in
  List.length (conns s') = List.length (conns s) /\
  Forall (fun c => c <> COpen) (conns s') /\
  (forall k c, nth_error (conns s') k = Some c ->
     nth_error (conns s) k <> Some CSpawned \/ In (ORegister k) l2 ->
     is_open c = false) /\
  ((forall k, nth_error (conns s) k = Some CSpawned -> In (ORegister k) l2) ->
   open_count s' = 0%nat).
Proof.
  intros s Hd s'.
  assert (HI : Inv s) by (apply run_inv; apply inv_init_e).
  destruct (close_first s HI Hd) as (_ & Hd1 & _ & _ & _ & _ & Hcs & Hno).
  set (s1 := fst (step s OClose)) in *.
  assert (HI1 : Inv s1) by (apply step_inv; exact HI).
  assert (Hc1 : closed_state s1) by (split; assumption).
  assert (P3 : forall k c, nth_error (conns s') k = Some c ->
     nth_error (conns s) k <> Some CSpawned \/ In (ORegister k) l2 -> is_open c = false).
  { intros k c Hk [Hns | Hin]; [|exact (closed_state_registered_ends l2 s1 k c HI1 Hc1 Hin Hk)].
    (* ended by Close itself *)
    destruct (nth_error (conns s1) k) as [c1|] eqn:E1.
    - assert (Ho1 : is_open c1 = false).
      { rewrite Hcs in E1. unfold close_all in E1. rewrite nth_error_map in E1.
        destruct (nth_error (conns s) k) as [[| | |]|]; inversion E1; try reflexivity.
        exfalso. apply Hns. reflexivity. }
      unfold s' in Hk. rewrite (closed_state_ended_stays l2 s1 k c1 HI1 Hc1 E1 Ho1) in Hk.
      inversion Hk; subst c. exact Ho1.
    - exfalso. apply nth_error_None in E1.
      assert (Hl := closed_state_length l2 s1 HI1 Hc1).
      assert (Hs : nth_error (conns s') k <> None) by (rewrite Hk; discriminate).
      apply nth_error_Some in Hs. unfold s' in Hs. lia. }
  split.
  { unfold s'. rewrite (closed_state_length l2 s1 HI1 Hc1), Hcs. unfold close_all. apply map_length. }
  split; [exact (proj2 (closed_state_run l2 s1 HI1 Hc1))|].
  split; [exact P3|].
  intro Hall. apply open_count_zero. intros j c Hj. apply (P3 j c Hj).
  destruct (nth_error (conns s) j) as [[| | |]|] eqn:E; try (left; discriminate).
  right. apply Hall. exact E.
Qed.

(* the window itself: whatever was accepted before, a connection accepted
   immediately before Close is closed by the server when its handler runs -
   it is never registered, greeted or served (before the repair:
   conns = [COpen] on a closed server) *)
Example close_ends_unregistered :
  let s := run_st init [OAccept AConn; OClose; ORegister 0] in
  done s = true /\ serve_ret s = Some RNil /\ conns s = [CClosedByServer] /\ open_count s = 0%nat.
Proof. repeat split. Qed.

(* likewise for Shutdown, which "stops accepting": the connection in the
   window is ended by its handler, and that releases the blocked Shutdown *)
Example shutdown_ends_unregistered :
  snd (run init [OAccept AConn; ORegister 0; OAccept AConn; OShutdown; ORegister 1; OFinish 0]) =
  [BAccepted; BNone; BAccepted; BPending; BNone; BShutdownRet RNil] /\
  snd (run init [OAccept AConn; OShutdown; ORegister 0]) = [BAccepted; BPending; BShutdownRet RNil] /\
  conns (run_st init [OAccept AConn; OShutdown; ORegister 0]) = [CClosedByServer].
Proof. repeat split. Qed.

(* non-vacuity of C20_close_ends_every_connection_lemma: two registered
   connections and two in the window, one of whose handlers has run *)
Example close_ends_every_connection_example :
  let l1 := [OAccept AConn; ORegister 0; OAccept AConn; OAccept AConn; ORegister 2; OAccept AConn] in
  done (run_st init l1) = false /\
  conns (run_st init l1) = [COpen; CSpawned; COpen; CSpawned] /\
  conns (run_st (fst (step (run_st init l1) OClose)) [ORegister 3; OFinish 0; OAccept AConn])
  = [CClosedByServer; CSpawned; CClosedByServer; CClosedByServer].
Proof. repeat split. Qed.

(* ---- a listener whose Close fails changes nothing but the returned error ----

   Server.Close / Shutdown remember the first error a listener's Close
   returns, carry on, and return it at the end.  So the run of a server whose
   listener fails to close is, operation for operation, the run of the same
   server with a listener that closes cleanly: the same states (Serve
   returns, the same connections are closed by the server at the same
   moments, the same Shutdown blocks and is released at the same operation)
   and the same observations, except that the nil of the first Close /
   Shutdown - returned at once or when the blocked call is released - is the
   listener's error. *)

Definition set_err (e : bool) (s : st) : st :=
  mkSt (serving s) (serve_ret s) (done s) (lis_closed s) (delay s) (sleeps s) (conns s)
       (sd_pending s) e.

Definition mark_obs (b : obs) : obs :=
  match b with
  | BRet RNil => BRet RListenerErr
  | BShutdownRet RNil => BShutdownRet RListenerErr
  | b => b
  end.

Lemma set_err_same s : set_err (lis_err s) s = s.
Proof. destruct s; reflexivity. Qed.

Lemma step_set_err s o :
  lis_err s = false ->
  step (set_err true s) o = (set_err true (fst (step s o)), mark_obs (snd (step s o))).
Proof.
  intro He. destruct s as [sv sr dn lc dl sl cs sp le]. cbn in He. subst le.
  unfold step, set_err, ok_ret, stop_serve, open_count.
  cbn [serving serve_ret done lis_closed delay sleeps conns sd_pending lis_err].
  destruct o as [[| |] | j | | | k |].
  - destruct (sv && negb lc); reflexivity.
  - destruct (sv && negb lc); [|reflexivity].
    destruct dn; reflexivity.
  - destruct (sv && negb lc); [|reflexivity].
    destruct dn; reflexivity.
  - destruct (nth_error cs j) as [[| | |]|]; try reflexivity.
    destruct dn; [|reflexivity].
    destruct sp; cbn [andb]; [|reflexivity].
    destruct (_ =? _)%nat; reflexivity.
  - destruct dn; [reflexivity|]. destruct sv; reflexivity.
  - destruct dn; [reflexivity|].
    destruct sv; destruct (_ =? _)%nat; reflexivity.
  - destruct (nth_error cs k) as [[| | |]|]; try reflexivity.
    destruct sp; cbn [andb]; [|reflexivity].
    destruct (_ =? _)%nat; reflexivity.
  - destruct sp; reflexivity.
Qed.

Theorem listener_error_changes_only_ret l : forall s,
  lis_err s = false ->
  run (set_err true s) l = (set_err true (run_st s l), map mark_obs (snd (run s l))).
Proof.
  induction l as [|o l IH]; intros s He; [reflexivity|].
  rewrite run_st_cons. rewrite (run_cons s). cbn [snd map].
  rewrite run_cons, (step_set_err s o He). cbn [fst snd].
  rewrite (IH (fst (step s o))) by (rewrite step_lis_err; exact He).
  reflexivity.
Qed.

(* a server that runs cleanly never reports a listener error *)
Lemma no_listener_error_step s o :
  lis_err s = false ->
  snd (step s o) <> BRet RListenerErr /\ snd (step s o) <> BShutdownRet RListenerErr.
Proof.
  intro He. unfold step, ok_ret, stop_serve. rewrite He.
  destruct o as [[| |] | j | | | k |];
    try (destruct (serving s && negb (lis_closed s)));
    try (destruct (nth_error (conns s) j) as [[| | |]|]);
    try (destruct (nth_error (conns s) k) as [[| | |]|]);
    try (destruct (done s));
    try (destruct (serving s));
    try (destruct (sd_pending s)); cbn [andb];
    try (destruct (_ =? _)%nat); cbn [snd]; split; discriminate.
Qed.

(* The statement for C20: for EVERY operation sequence from a fresh server,
   with a listener whose Close fails
   (1) the state is the one reached with a clean listener - Serve has
       returned the same, the same connections have been ended by the server,
       as many are active, a Shutdown call blocks iff it blocks there;
   (2) the observations are those of the clean run with nil replaced by the
       listener's error in what Close / Shutdown return;
   in particular Close still ends every connection and Shutdown still waits
   for the active connections (C20_close_ends_every_connection_lemma,
   C20_shutdown_lemma hold for both values of the parameter). *)
Theorem C20_listener_close_error_lemma l :
  let sf := run_st (init_e true) l in
  let s := run_st init l in
  sf = set_err true s /\
  serving sf = serving s /\ serve_ret sf = serve_ret s /\ done sf = done s /\
  conns sf = conns s /\ open_count sf = open_count s /\ sd_pending sf = sd_pending s /\
  snd (run (init_e true) l) = map mark_obs (snd (run init l)) /\
  ~ In (BRet RListenerErr) (snd (run init l)) /\
  ~ In (BShutdownRet RListenerErr) (snd (run init l)).
Proof.
  intros sf s.
  assert (H := listener_error_changes_only_ret l init eq_refl).
  change (set_err true init) with (init_e true) in H.
  assert (Hs : sf = set_err true s) by (unfold sf, run_st; rewrite H; reflexivity).
  split; [exact Hs|]. rewrite Hs. repeat split; try reflexivity.
  - rewrite H. reflexivity.
  - clear. unfold init.
    assert (G : forall l' s0, lis_err s0 = false -> ~ In (BRet RListenerErr) (snd (run s0 l'))).
    { induction l' as [|o l' IH]; intros s0 He; [intros []|].
      rewrite run_cons. cbn [snd]. intros [F | F].
      - exact (proj1 (no_listener_error_step s0 o He) F).
      - apply (IH (fst (step s0 o))); [rewrite step_lis_err; exact He | exact F]. }
    apply G. reflexivity.
  - clear. unfold init.
    assert (G : forall l' s0, lis_err s0 = false -> ~ In (BShutdownRet RListenerErr) (snd (run s0 l'))).
    { induction l' as [|o l' IH]; intros s0 He; [intros []|].
      rewrite run_cons. cbn [snd]. intros [F | F].
      - exact (proj2 (no_listener_error_step s0 o He) F).
      - apply (IH (fst (step s0 o))); [rewrite step_lis_err; exact He | exact F]. }
    apply G. reflexivity.
Qed.

(* the two halves in the words of the property, for a reachable state whose
   listener fails to close: Close returns the listener's error AND has ended
   every registered connection; Shutdown with an active connection does not
   return, and returns the listener's error when the last one has finished *)
Theorem C20_close_despite_listener_error_lemma s :
  reachable s -> done s = false -> lis_err s = true ->
  let s' := fst (step s OClose) in
  snd (step s OClose) = BRet RListenerErr /\
  serving s' = false /\ conns s' = close_all (conns s) /\
  Forall (fun c => c <> COpen) (conns s') /\
  forall l o, (o = OClose \/ o = OShutdown) -> snd (step (run_st s' l) o) = BRet RServerClosed.
Proof.
  intros Hr Hd He s'.
  destruct (C20_close_once_lemma s Hr Hd) as (A & B & _ & C & D & E).
  unfold ok_ret in A. rewrite He in A. repeat split; auto.
Qed.

Theorem C20_shutdown_despite_listener_error_lemma s :
  reachable s -> done s = false -> lis_err s = true -> (open_count s > 0)%nat ->
  let s' := fst (step s OShutdown) in
  snd (step s OShutdown) = BPending /\
  forall l, has_expire l = false ->
    let s'' := run_st s' l in
    (sd_pending s'' = true /\ (open_count s'' > 0)%nat /\
     ~ In (BShutdownRet RListenerErr) (snd (run s' l))) \/
    (sd_pending s'' = false /\ open_count s'' = 0%nat /\
     In (BShutdownRet RListenerErr) (snd (run s' l))).
Proof.
  intros Hr Hd He Ho s'. assert (HI := reachable_inv s Hr).
  assert (HI' : Inv s') by (apply step_inv; exact HI).
  destruct (shutdown_first s HI Hd) as (_ & _ & _ & _ & _ & _ & G).
  destruct (G Ho) as [Gb Gp]. split; [exact Gb|].
  intros l Hl s''.
  assert (Hok : ok_ret s' = RListenerErr).
  { unfold s'. rewrite step_ok_ret. unfold ok_ret. rewrite He. reflexivity. }
  destruct (shutdown_waits s' l HI' Gp Hl) as [_ [(P & Q & R) | (P & Q & R)]]; rewrite Hok in R;
    [left | right]; repeat split; auto.
Qed.

(* non-vacuity: registered, spawned and finished connections; Close and
   Shutdown; the clean run beside the faulty one *)
Example listener_error_example_close :
  let l := [OAccept AConn; ORegister 0; OAccept AConn; ORegister 1; OAccept AConn; OFinish 0;
            OClose; ORegister 2; OClose; OShutdown] in
  snd (run (init_e true) l) =
    [BAccepted; BNone; BAccepted; BNone; BAccepted; BNone;
     BRet RListenerErr; BNone; BRet RServerClosed; BRet RServerClosed] /\
  snd (run init l) =
    [BAccepted; BNone; BAccepted; BNone; BAccepted; BNone;
     BRet RNil; BNone; BRet RServerClosed; BRet RServerClosed] /\
  conns (run_st (init_e true) l) = [CFinished; CClosedByServer; CClosedByServer] /\
  serve_ret (run_st (init_e true) l) = Some RNil.
Proof. repeat split. Qed.

Example listener_error_example_shutdown :
  let l := [OAccept AConn; ORegister 0; OAccept AConn; OShutdown; ORegister 1; OClose; OFinish 0] in
  snd (run (init_e true) l) =
    [BAccepted; BNone; BAccepted; BPending; BNone; BRet RServerClosed; BShutdownRet RListenerErr] /\
  snd (run init l) =
    [BAccepted; BNone; BAccepted; BPending; BNone; BRet RServerClosed; BShutdownRet RNil] /\
  snd (run (init_e true) [OShutdown]) = [BRet RListenerErr] /\
  snd (run (init_e true) [OAccept AConn; ORegister 0; OShutdown; OExpire; OFinish 0]) =
    [BAccepted; BNone; BPending; BShutdownRet RCtxErr; BNone].
Proof. repeat split. Qed.

Example listener_error_reachable :
  let s := run_st (init_e true) [OAccept AConn; ORegister 0] in
  reachable s /\ done s = false /\ lis_err s = true /\ (open_count s > 0)%nat.
Proof.
  cbv zeta. split; [exists true, [OAccept AConn; ORegister 0]; reflexivity|].
  repeat split. unfold open_count. simpl. lia.
Qed.
