(* C12: EHLO advertises exactly what the configuration enables, and honours it. *)
From Smtp Require Import Bytes GoStrings Transport DataReader Parse Xtext Base64 Reply Rfc3339 Lmtp Conn.
Local Open Scope char_scope.

(* ---------- the advertised list, characterised line by line ---------- *)

Definition auth_line (mechs : list bytes) : bytes := bs "AUTH" ++ flat_map (fun n => " " :: n) mechs.

(* an independent description of which capability lines must be present *)
Definition advertised (cfg : config) (tls : bool) (s : bytes) : Prop :=
  s = bs "PIPELINING" \/ s = bs "8BITMIME" \/ s = bs "ENHANCEDSTATUSCODES" \/ s = bs "CHUNKING"
  \/ (s = bs "STARTTLS" /\ cf_tls_config cfg = true /\ tls = false)
  \/ (exists m ms, cf_auth cfg = Some (m :: ms) /\ (tls = true \/ cf_insecure_auth cfg = true)
                   /\ s = auth_line (m :: ms))
  \/ (s = bs "SMTPUTF8" /\ cf_utf8 cfg = true)
  \/ (s = bs "REQUIRETLS" /\ tls = true /\ cf_requiretls cfg = true)
  \/ (s = bs "BINARYMIME" /\ cf_binarymime cfg = true)
  \/ (s = bs "DSN" /\ cf_dsn cfg = true)
  \/ (s = bs "SIZE " ++ dec_of_Z (cf_max_bytes cfg) /\ (0 < cf_max_bytes cfg)%Z)
  \/ (s = bs "SIZE" /\ (cf_max_bytes cfg <= 0)%Z)
  \/ (s = bs "LIMITS RCPTMAX=" ++ dec_of_N (cf_max_rcpt cfg) /\ (0 < cf_max_rcpt cfg)%N)
  \/ (s = bs "RRVS" /\ cf_rrvs cfg = true).

Lemma in_opt (b : bool) (x s : bytes) : In s (if b then [x] else []) <-> (s = x /\ b = true).
Proof. destruct b; cbn; intuition congruence. Qed.

Lemma in_auth cfg tls s :
  In s (if tls || cf_insecure_auth cfg
        then match cf_auth cfg with
             | Some (m :: ms) => [bs "AUTH" ++ flat_map (fun n => " " :: n) (m :: ms)]
             | _ => []
             end
        else [])
  <-> exists m ms, cf_auth cfg = Some (m :: ms)
                   /\ (tls = true \/ cf_insecure_auth cfg = true) /\ s = auth_line (m :: ms).
Proof.
  unfold auth_line. split.
  - destruct (tls || cf_insecure_auth cfg) eqn:E; [|intros []].
    destruct (cf_auth cfg) as [[|m ms]|]; [intros []| |intros []].
    intros [H|[]]. subst s. exists m, ms. apply orb_true_iff in E. auto.
  - intros (m & ms & H1 & H2 & H3). rewrite H1.
    assert (E : tls || cf_insecure_auth cfg = true) by (apply orb_true_iff; exact H2).
    rewrite E. left. auto.
Qed.

Theorem caps_exact cfg c s : In s (caps cfg c) <-> advertised cfg (c_tls c) s.
Proof.
  unfold caps, advertised, auth_allowed.
  rewrite !in_app_iff, in_auth, !in_opt. cbn [In].
  rewrite andb_true_iff, negb_true_iff, andb_true_iff.
  assert (Hb : In s (if (0 <? cf_max_bytes cfg)%Z then [bs "SIZE " ++ dec_of_Z (cf_max_bytes cfg)] else [bs "SIZE"])
               <-> (s = bs "SIZE " ++ dec_of_Z (cf_max_bytes cfg) /\ (0 < cf_max_bytes cfg)%Z)
                   \/ (s = bs "SIZE" /\ (cf_max_bytes cfg <= 0)%Z)).
  { destruct (0 <? cf_max_bytes cfg)%Z eqn:Eb;
      [apply Z.ltb_lt in Eb | apply Z.ltb_ge in Eb]; cbn [In]; split.
    - intros [H|[]]; left; auto.
    - intros [[H _]|[_ H]]; [left; auto|lia].
    - intros [H|[]]; right; auto.
    - intros [[_ H]|[H _]]; [lia|left; auto]. }
  rewrite Hb, N.ltb_lt. clear Hb.
  split.
  - intros [[H|[H|[H|[H|[]]]]]|[H|[H|[H|[H|[H|[H|[H|[H|H]]]]]]]]].
    + left; auto.
    + right; left; auto.
    + do 2 right; left; auto.
    + do 3 right; left; auto.
    + do 4 right; left. destruct H as (A & B & C). auto.
    + do 5 right; left. exact H.
    + do 6 right; left. exact H.
    + do 7 right; left. destruct H as (A & B & C). auto.
    + do 8 right; left. exact H.
    + do 9 right; left. exact H.
    + destruct H as [H|H]; [do 10 right; left; exact H|do 11 right; left; exact H].
    + do 12 right; left. exact H.
    + do 13 right. exact H.
  - intros [H|[H|[H|[H|[H|[H|[H|[H|[H|[H|[H|[H|[H|H]]]]]]]]]]]]].
    + left; left; auto.
    + left; right; left; auto.
    + left; do 2 right; left; auto.
    + left; do 3 right; left; auto.
    + right; left. destruct H as (A & B & C). auto.
    + right; right; left. exact H.
    + do 3 right; left. exact H.
    + do 4 right; left. destruct H as (A & B & C). auto.
    + do 5 right; left. exact H.
    + do 6 right; left. exact H.
    + do 7 right; left. left. exact H.
    + do 7 right; left. right. exact H.
    + do 8 right; left. exact H.
    + do 9 right. exact H.
Qed.

(* HELO lists none: the reply is the single line "250 2.0.0 Hello <domain>" *)
Theorem helo_lists_nothing cfg c arg domain :
  parse_hello_argument arg = Some domain -> c_session c = true ->
  exists c' ev, handle_greet cfg c false arg
                = (c', ev ++ [reply 250 (2, 0, 0)%Z (bs "Hello " ++ domain)]).
Proof.
  intros Hp Hs. unfold handle_greet. rewrite Hp.
  assert (Hs1 : c_session (upd_helo c domain) = true) by exact Hs. rewrite Hs1.
  destruct (do_reset (upd_helo c domain)) as [c' ev]. cbn. eauto.
Qed.

(* the EHLO reply carries exactly [caps] after the greeting line *)
Theorem ehlo_lists_caps cfg c arg domain :
  parse_hello_argument arg = Some domain -> c_session c = true ->
  exists c' ev, handle_greet cfg c true arg
                = (c', ev ++ [EWire (write_response 250 no_ec ((bs "Hello " ++ domain) :: caps cfg c'))])
                /\ c_tls c' = c_tls c.
Proof.
  intros Hp Hs. unfold handle_greet. rewrite Hp.
  assert (Hs1 : c_session (upd_helo c domain) = true) by exact Hs. rewrite Hs1.
  destruct (do_reset (upd_helo c domain)) as [c' ev] eqn:E. cbn.
  exists c', ev. split; [reflexivity|].
  unfold do_reset in E. destruct (c_bdat (upd_helo c domain)) as [b|].
  - destruct (bd_end b RDataReset). inversion E; subst. reflexivity.
  - inversion E; subst. reflexivity.
Qed.

(* ---------- honoured: each extension's parameter is accepted iff enabled ---------- *)

Definition accepted {A} (r : A + rfail) : Prop := exists a, r = inl a.
Definition refused_504 {A} (r : A + rfail) : Prop := exists ec msg, r = inr (504%Z, ec, msg).

Theorem honour_smtputf8 cfg o bm :
  (cf_utf8 cfg = true -> accepted (mail_param cfg (bs "SMTPUTF8") [] o bm)) /\
  (cf_utf8 cfg = false -> refused_504 (mail_param cfg (bs "SMTPUTF8") [] o bm)).
Proof. unfold mail_param, accepted, refused_504; cbn; split; intros ->; cbn; eauto. Qed.

Theorem honour_requiretls cfg o bm :
  (cf_requiretls cfg = true -> accepted (mail_param cfg (bs "REQUIRETLS") [] o bm)) /\
  (cf_requiretls cfg = false -> refused_504 (mail_param cfg (bs "REQUIRETLS") [] o bm)).
Proof. unfold mail_param, accepted, refused_504; cbn; split; intros ->; cbn; eauto. Qed.

Theorem honour_binarymime cfg o bm :
  (cf_binarymime cfg = true -> accepted (mail_param cfg (bs "BODY") (bs "BINARYMIME") o bm)) /\
  (cf_binarymime cfg = false -> refused_504 (mail_param cfg (bs "BODY") (bs "BINARYMIME") o bm)).
Proof. unfold mail_param, accepted, refused_504; cbn; split; intros ->; eauto. Qed.

Theorem honour_8bitmime cfg o bm :
  accepted (mail_param cfg (bs "BODY") (bs "8BITMIME") o bm)
  /\ accepted (mail_param cfg (bs "BODY") (bs "7BIT") o bm).
Proof. unfold mail_param, accepted; cbn; eauto. Qed.

Theorem honour_dsn_ret cfg o bm :
  (cf_dsn cfg = true -> accepted (mail_param cfg (bs "RET") (bs "FULL") o bm)
                        /\ accepted (mail_param cfg (bs "RET") (bs "HDRS") o bm)) /\
  (cf_dsn cfg = false -> forall v, refused_504 (mail_param cfg (bs "RET") v o bm)
                                   /\ refused_504 (mail_param cfg (bs "ENVID") v o bm)).
Proof.
  unfold mail_param, accepted, refused_504; cbn; split; intros ->; cbn; [split; eauto | intros v; split; eauto].
Qed.

Theorem honour_dsn_rcpt cfg o :
  (cf_dsn cfg = true -> accepted (rcpt_param cfg (bs "NOTIFY") (bs "SUCCESS,FAILURE") o)
                        /\ accepted (rcpt_param cfg (bs "NOTIFY") (bs "NEVER") o)) /\
  (cf_dsn cfg = false -> forall v, refused_504 (rcpt_param cfg (bs "NOTIFY") v o)
                                   /\ refused_504 (rcpt_param cfg (bs "ORCPT") v o)).
Proof.
  unfold rcpt_param, accepted, refused_504; cbn; split; intros ->; cbn; [split; eauto | intros v; split; eauto].
Qed.

Theorem honour_rrvs cfg o :
  (cf_rrvs cfg = true -> accepted (rcpt_param cfg (bs "RRVS") (bs "2014-04-03T23:01:00Z") o)) /\
  (cf_rrvs cfg = false -> forall v, refused_504 (rcpt_param cfg (bs "RRVS") v o)).
Proof.
  unfold accepted, refused_504, rcpt_param; split; intros E.
  - cbn -[parse_rfc3339]. rewrite E. cbn -[parse_rfc3339].
    replace (parse_rfc3339 _) with (Some (mkRT 1396566060 0 0)) by (vm_compute; reflexivity).
    eauto.
  - intros v. cbn. rewrite E. cbn. eauto.
Qed.

(* SIZE with the configured value *)
Lemma mail_param_size cfg v o bm :
  mail_param cfg (bs "SIZE") v o bm =
  match parse_uint 63 v with
  | POk n =>
      if (0 <? cf_max_bytes cfg)%Z && (cf_max_bytes cfg <? Z.of_N n)%Z
      then inr (552, (5, 3, 4), bs "Max message size exceeded")%Z
      else inl (mkMO (mo_body o) (Z.of_N n) (mo_requiretls o) (mo_utf8 o) (mo_ret o) (mo_envid o) (mo_auth o), bm)
  | PRange =>
      if (0 <? cf_max_bytes cfg)%Z then inr (552, (5, 3, 4), bs "Max message size exceeded")%Z
      else inr (501, (5, 5, 4), bs "Unable to parse SIZE as an integer")%Z
  | PSyntax => inr (501, (5, 5, 4), bs "Unable to parse SIZE as an integer")%Z
  end.
Proof. reflexivity. Qed.

Theorem honour_size cfg o bm v :
  forallb is_digit v = true -> v <> [] -> (dec_value v < 2 ^ 63)%N ->
  ((0 < cf_max_bytes cfg)%Z -> (cf_max_bytes cfg < Z.of_N (dec_value v))%Z ->
     mail_param cfg (bs "SIZE") v o bm = inr (552, (5, 3, 4), bs "Max message size exceeded")%Z) /\
  ((cf_max_bytes cfg <= 0)%Z \/ (Z.of_N (dec_value v) <= cf_max_bytes cfg)%Z ->
     accepted (mail_param cfg (bs "SIZE") v o bm)).
Proof.
  intros Hd Hne Hr. rewrite mail_param_size. unfold accepted, parse_uint.
  destruct v as [|x v]; [congruence|]. rewrite Hd.
  apply N.ltb_lt in Hr. rewrite Hr. split.
  - intros H1 H2. apply Z.ltb_lt in H1, H2. rewrite H1, H2. reflexivity.
  - intros [H|H].
    + assert (E : (0 <? cf_max_bytes cfg)%Z = false) by (apply Z.ltb_ge; lia). rewrite E. cbn [andb]. eauto.
    + assert (E : (cf_max_bytes cfg <? Z.of_N (dec_value (x :: v)))%Z = false) by (apply Z.ltb_ge; lia).
      rewrite E, andb_false_r. eauto.
Qed.

(* a SIZE value too large for 63 bits is above any limit *)
Theorem honour_size_huge cfg o bm v :
  forallb is_digit v = true -> v <> [] -> (2 ^ 63 <= dec_value v)%N -> (0 < cf_max_bytes cfg)%Z ->
  mail_param cfg (bs "SIZE") v o bm = inr (552, (5, 3, 4), bs "Max message size exceeded")%Z.
Proof.
  intros Hd Hne Hr Hl. rewrite mail_param_size. unfold parse_uint.
  destruct v as [|x v]; [congruence|]. rewrite Hd.
  assert (E : (dec_value (x :: v) <? 2 ^ 63)%N = false) by (apply N.ltb_ge; exact Hr). rewrite E.
  apply Z.ltb_lt in Hl. rewrite Hl. reflexivity.
Qed.

(* STARTTLS is accepted (220) exactly when it is advertised *)
Theorem honour_starttls cfg c :
  (cf_tls_config cfg = true /\ c_tls c = false ->
     exists c' ev, handle_starttls cfg c = (c', reply 220 (2, 0, 0)%Z (bs "Ready to start TLS") :: ev)) /\
  (cf_tls_config cfg = false \/ c_tls c = true ->
     exists msg, handle_starttls cfg c = (c, [reply 502 (5, 5, 1)%Z msg])).
Proof.
  unfold handle_starttls. split.
  - intros [H1 H2]. rewrite H1, H2. cbn [negb].
    destruct (t_raw (c_t c)) as [|r rs]; destruct (c_phases c) as [|ph phs];
      try (eexists _, _; reflexivity).
    destruct (do_reset _) as [c2 ev2]. eexists _, _. reflexivity.
  - intros [H|H].
    + destruct (c_tls c); [eauto|]. rewrite H. cbn. eauto.
    + rewrite H. eauto.
Qed.

(* AUTH is refused with 523 whenever it is not advertised for lack of TLS *)
Theorem honour_auth_needs_tls cfg c arg m more :
  c_helo c <> [] -> c_did_auth c = false -> fields arg = m :: more ->
  c_tls c = false -> cf_insecure_auth cfg = false ->
  handle_auth cfg c arg = (c, [reply 523 (5, 7, 10)%Z (bs "TLS is required")]).
Proof.
  intros Hh Hd Hf Ht Hi. unfold handle_auth.
  destruct (c_helo c); [congruence|]. rewrite Hd, Hf. unfold auth_allowed. rewrite Ht, Hi. reflexivity.
Qed.

(* the recipient limit that is advertised is the one enforced *)
Theorem honour_rcptmax cfg c arg a rcpt rest :
  c_from c = true -> c_bdat c = None -> cut_prefix_fold arg (bs "TO:") = Some a ->
  parse_path (trim_space a) = Some (rcpt, rest) ->
  (0 < cf_max_rcpt cfg)%N -> (cf_max_rcpt cfg <= N.of_nat (List.length (c_rcpts c)))%N ->
  handle_rcpt cfg c arg
  = (c, [reply 452 (4, 5, 3)%Z (bs "Maximum limit of " ++ dec_of_N (cf_max_rcpt cfg) ++ bs " recipients reached")]).
Proof.
  intros Hf Hb Hc Hp H1 H2. unfold handle_rcpt. rewrite Hf, Hb, Hc, Hp. cbn [negb].
  apply N.ltb_lt in H1. apply N.leb_le in H2. rewrite H1, H2. reflexivity.
Qed.

(* ---------- the property's finite configuration space, enumerated ---------- *)

Definition all_bool := [false; true].

Definition cfg_space : list (config * bool) :=
  flat_map (fun lmtp => flat_map (fun tlscfg => flat_map (fun tls =>
  flat_map (fun ins => flat_map (fun u => flat_map (fun r => flat_map (fun b =>
  flat_map (fun d => flat_map (fun rr => flat_map (fun mb => flat_map (fun mr =>
  map (fun au =>
         (mkCfg lmtp tlscfg (bs "d") mr mb 2000 ins u r b d rr false au tls, tls))
      [None; Some [bs "PLAIN"]])
  [0; 7]%N) [0; 1000]%Z) all_bool) all_bool) all_bool) all_bool) all_bool) all_bool) all_bool) all_bool) all_bool.

Definition mk_conn (cfg : config) (tls : bool) : conn :=
  mkC (mkT [] [] 0 (cf_max_line cfg) false) [] (mkBE [] [] [] [] []) (bs "h") true 0 false false [] false false tls None 0.

Definition has (s : string) (l : list bytes) : bool := existsb (bytes_eqb (bs s)) l.

Definition is_inl {A B} (x : A + B) : bool := match x with inl _ => true | inr _ => false end.
Definition is_504 {A} (x : A + rfail) : bool :=
  match x with inr (c, _, _) => (c =? 504)%Z | inl _ => false end.

(* advertised <-> accepted, not advertised <-> 504, per extension *)
Definition cfg_consistent (p : config * bool) : bool :=
  let '(cfg, tls) := p in
  let c := mk_conn cfg tls in
  let l := caps cfg c in
  Bool.eqb (has "SMTPUTF8" l) (is_inl (mail_param cfg (bs "SMTPUTF8") [] mo_zero false))
  && Bool.eqb (negb (has "SMTPUTF8" l)) (is_504 (mail_param cfg (bs "SMTPUTF8") [] mo_zero false))
  && Bool.eqb (has "BINARYMIME" l) (is_inl (mail_param cfg (bs "BODY") (bs "BINARYMIME") mo_zero false))
  && Bool.eqb (negb (has "BINARYMIME" l)) (is_504 (mail_param cfg (bs "BODY") (bs "BINARYMIME") mo_zero false))
  && Bool.eqb (has "DSN" l) (is_inl (mail_param cfg (bs "RET") (bs "FULL") mo_zero false))
  && Bool.eqb (negb (has "DSN" l)) (is_504 (mail_param cfg (bs "ENVID") (bs "x") mo_zero false))
  && Bool.eqb (has "DSN" l) (is_inl (rcpt_param cfg (bs "NOTIFY") (bs "DELAY") ro_zero))
  && Bool.eqb (negb (has "DSN" l)) (is_504 (rcpt_param cfg (bs "ORCPT") (bs "rfc822;a@b") ro_zero))
  && Bool.eqb (has "RRVS" l) (is_inl (rcpt_param cfg (bs "RRVS") (bs "2014-04-03T23:01:00Z") ro_zero))
  && Bool.eqb (negb (has "RRVS" l)) (is_504 (rcpt_param cfg (bs "RRVS") (bs "2014-04-03T23:01:00Z") ro_zero))
  (* REQUIRETLS is advertised only under TLS; when advertised it is accepted, when disabled it is refused *)
  && implb (has "REQUIRETLS" l) (is_inl (mail_param cfg (bs "REQUIRETLS") [] mo_zero false))
  && implb (negb (cf_requiretls cfg)) (is_504 (mail_param cfg (bs "REQUIRETLS") [] mo_zero false))
  && implb (has "REQUIRETLS" l) tls
  && Bool.eqb (has "STARTTLS" l) (cf_tls_config cfg && negb tls)
  && Bool.eqb (existsb (fun s => is_prefix (bs "AUTH ") s) l)
              ((tls || cf_insecure_auth cfg) && match cf_auth cfg with Some (_ :: _) => true | _ => false end)
  && has "PIPELINING" l && has "8BITMIME" l && has "ENHANCEDSTATUSCODES" l && has "CHUNKING" l
  && Bool.eqb (has "SIZE" l) (cf_max_bytes cfg <=? 0)%Z
  && Bool.eqb (has "SIZE 1000" l) (cf_max_bytes cfg =? 1000)%Z
  && Bool.eqb (has "LIMITS RCPTMAX=7" l) (cf_max_rcpt cfg =? 7)%N.

Theorem cfg_space_size : N.of_nat (List.length cfg_space) = 4096%N.
Proof. vm_compute. reflexivity. Qed.

Theorem cfg_space_consistent : forallb cfg_consistent cfg_space = true.
Proof. vm_compute. reflexivity. Qed.

Corollary cfg_space_consistent_all p : In p cfg_space -> cfg_consistent p = true.
Proof. apply forallb_forall. exact cfg_space_consistent. Qed.
