#!/usr/bin/env python3
"""mkresults.py: (re)write seeded/RESULTS.md from the seedrun logs under .work/ (sweep/, lrun/, mrun/, nrun/, orun/,
take-*.log), newest log per seed wins; seeds without a log of the final sweep keep the row of the earlier full sweep
(.work/RESULTS-sweep1.md), marked as such."""
import glob, re, os
os.chdir(os.path.join(os.path.dirname(__file__), ".."))
def parse(t):
    ms = re.findall(r'check (C\d+) rc=(\d+) :: (.*)', t)
    if not ms: return None
    prop, rc, rest = ms[-1]
    if 'VIOLATION' in rest and 'no-failing-input-found' in rest: res = 'detected (obligation/correspondence broken, no-failing-input-found)'
    elif 'VIOLATION' in rest: res = 'detected (violation with failing input)'
    else: res = 'MISSED'
    c = re.search(r'cases=(\d+) agree=(\d+) diff=(\d+) viol=(\d+)', rest)
    return prop, res, ('cases=%s diff=%s viol=%s' % (c.group(1), c.group(3), c.group(4))) if c else ''
logs = {}
# sources by rank: the final sweep, re-runs after a fix, (the earlier full sweep: below), the run when the seed was taken
for rank, pat in [(3, '.work/sweep/*.txt'), (2, '.work/lrun/*.txt'), (2, '.work/mrun/*.txt'), (2, '.work/nrun/*.txt'), (2, '.work/orun/*.txt'), (0, '.work/take-C*.log')]:
    for f in glob.glob(pat):
        id = re.sub(r'^take-', '', os.path.basename(f)).split('.')[0]
        if not re.fullmatch(r'C\d\d[A-Z]', id): continue
        p = parse(open(f, errors='replace').read())
        if p is None: continue
        key = (rank, os.path.getmtime(f))
        if id not in logs or key > logs[id][0]:
            logs[id] = (key, p, f)
old = {}
if os.path.exists('.work/RESULTS-sweep1.md'):
    for l in open('.work/RESULTS-sweep1.md'):
        m = re.match(r'\| (C\d\d[A-Z]) \| (C\d\d) \| (.*?) \| (.*?) \| (.*?) \|$', l.strip())
        if m: old[m.group(1)] = m.groups()
def title(id):
    try:
        h = [l for l in open('seeded/%s/NOTES.md' % id).read().splitlines() if l.startswith('#')]
        return re.sub(r'^#+\s*', '', h[0])[:110].replace('|', '/') if h else ''
    except Exception: return ''
ids = sorted(d for d in os.listdir('seeded') if re.fullmatch(r'C\d\d[A-Z]', d))
rows = []; final = 0
for id in ids:
    if id in logs and (logs[id][0][0] >= 2 or id not in old):
        prop, res, c = logs[id][1]
        src = {3: 'final sweep', 2: 're-run after the check was strengthened', 0: 'when the seed was taken'}[logs[id][0][0]]
        if logs[id][0][0] == 3: final += 1
        rows.append((id, prop, title(id), res, c, src))
    elif id in old:
        o = old[id]; rows.append((id, o[1], title(id), o[3], o[4], 'earlier full sweep'))
    else:
        rows.append((id, id[:3], title(id), 'not run', '', ''))
with open('seeded/RESULTS.md', 'w') as o:
    o.write('# Seeded changes: which check catches which\n\nEach row: the quick check of the seed\'s own property run by `bin/seedrun` (scratch copies of /repo and /verif; /repo itself is never touched). Column "run": `final sweep` = run by the sweep started after the N series (generators as of then or later); `re-run after the check was strengthened` = the seed was missed when taken and is detected since the change described in DESIGN.md section 15; `when the seed was taken` = detected at once, not run again; `earlier full sweep` = the full sweep of series A-K (218 of 219 detected; C09F missed there and is detected again after the fix described in DESIGN.md section 15) that was not repeated for this seed on the final tree.\n\n| seed | property | what the change is | result of `bin/check <property> quick` | counts | run |\n|---|---|---|---|---|---|\n')
    for r in rows: o.write('| %s | %s | %s | %s | %s | %s |\n' % r)
    det = sum(1 for r in rows if r[3].startswith('detected'))
    o.write('\n%d of %d detected; %d of them re-run by the final sweep.\n' % (det, len(rows), final))
print(open('seeded/RESULTS.md').read()[-200:])
