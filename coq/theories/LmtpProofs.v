(* Proofs for property C13: the status collector of Lmtp.v (sequential) and
   the two-task model of LmtpConc.v (all interleavings) against the direct
   specification LmtpSpec.v. *)
From Smtp Require Import Bytes Reply Lmtp LmtpSpec LmtpConc.

(* ---------- addresses, counting ---------- *)

Lemma bytes_eqb_spec a b : reflect (a = b) (bytes_eqb a b).
Proof.
  destruct (bytes_eqb a b) eqn:E; constructor.
  - apply bytes_eqb_eq; exact E.
  - intros H. apply bytes_eqb_eq in H. congruence.
Qed.

Lemma count_addr_nil a : count_addr a [] = 0.
Proof. reflexivity. Qed.

Lemma count_addr_cons a b l :
  count_addr a (b :: l) = (if bytes_eqb a b then 1 else 0) + count_addr a l.
Proof. unfold count_addr. cbn [filter]. destruct (bytes_eqb a b); reflexivity. Qed.

Lemma count_addr_app a l1 l2 : count_addr a (l1 ++ l2) = count_addr a l1 + count_addr a l2.
Proof. unfold count_addr. rewrite filter_app, app_length. reflexivity. Qed.

Lemma count_addr_snoc a b l :
  count_addr a (l ++ [b]) = count_addr a l + (if bytes_eqb a b then 1 else 0).
Proof. rewrite count_addr_app, count_addr_cons, count_addr_nil. lia. Qed.

Lemma count_addr_in a l : In a l <-> 0 < count_addr a l.
Proof.
  induction l as [|b l IH].
  - cbn. split; [tauto | lia].
  - rewrite count_addr_cons. cbn [In]. destruct (bytes_eqb_spec a b) as [->|Hne].
    + split; [lia | auto].
    + rewrite IH. split; [intros [H|H]; [congruence | lia] | intros H; right; lia].
Qed.

Lemma existsb_count a l : existsb (bytes_eqb a) l = (0 <? count_addr a l).
Proof.
  induction l as [|b l IH]; [reflexivity|].
  rewrite count_addr_cons. cbn [existsb]. destruct (bytes_eqb a b); cbn [orb].
  - symmetry. apply Nat.ltb_lt. lia.
  - rewrite IH. reflexivity.
Qed.

Lemma calls_for_nil a : calls_for a [] = [].
Proof. reflexivity. Qed.

Lemma calls_for_cons a b e l :
  calls_for a ((b, e) :: l) = if bytes_eqb a b then e :: calls_for a l else calls_for a l.
Proof. unfold calls_for. cbn [filter fst]. destruct (bytes_eqb a b); reflexivity. Qed.

Lemma calls_for_app a l1 l2 : calls_for a (l1 ++ l2) = calls_for a l1 ++ calls_for a l2.
Proof. unfold calls_for. rewrite filter_app, map_app. reflexivity. Qed.

Lemma calls_for_length a l : List.length (calls_for a l) = count_addr a (map fst l).
Proof.
  induction l as [|[b e] l IH]; [reflexivity|].
  rewrite calls_for_cons. cbn [map fst]. rewrite count_addr_cons.
  destruct (bytes_eqb a b); cbn [List.length]; lia.
Qed.

(* ---------- assign ---------- *)

Lemma assign_app pick seen d t :
  assign pick seen (d ++ t) = assign pick seen d ++ assign pick (seen ++ d) t.
Proof.
  revert seen; induction d as [|a d IH]; intros seen; cbn [assign app].
  - rewrite app_nil_r. reflexivity.
  - rewrite IH, <- app_assoc. reflexivity.
Qed.

Lemma assign_names pick seen rcpts : map fst (assign pick seen rcpts) = rcpts.
Proof.
  revert seen; induction rcpts as [|a r IH]; intros seen; cbn [assign map fst]; [reflexivity|].
  rewrite IH. reflexivity.
Qed.

Lemma assign_length pick seen rcpts : List.length (assign pick seen rcpts) = List.length rcpts.
Proof. rewrite <- (assign_names pick seen rcpts) at 2. rewrite map_length. reflexivity. Qed.

(* only the values [pick a k] with k below the number of occurrences matter *)
Lemma assign_ext pick1 pick2 seen rcpts :
  (forall a k, k < count_addr a (seen ++ rcpts) -> pick1 a k = pick2 a k) ->
  assign pick1 seen rcpts = assign pick2 seen rcpts.
Proof.
  revert seen; induction rcpts as [|a r IH]; intros seen H; cbn [assign]; [reflexivity|].
  f_equal.
  - f_equal. apply H. rewrite count_addr_app, count_addr_cons, bytes_eqb_refl. lia.
  - apply IH. intros b k Hk. apply H.
    rewrite <- app_assoc in Hk. exact Hk.
Qed.

Lemma expected_names rcpts calls ret : map fst (expected_statuses rcpts calls ret) = rcpts.
Proof. apply assign_names. Qed.

(* ---------- the collector seen as: capacity and queue per address ---------- *)

Fixpoint coll_get (a : bytes) (c : collector) : option (nat * list berr) :=
  match c with
  | [] => None
  | (a', nq) :: r => if bytes_eqb a a' then Some nq else coll_get a r
  end.
Definition cap (a : bytes) (c : collector) : nat :=
  match coll_get a c with Some (n, _) => n | None => 0 end.
Definition que (a : bytes) (c : collector) : list berr :=
  match coll_get a c with Some (_, q) => q | None => [] end.

Lemma coll_add_rcpt_get a b c :
  coll_get b (coll_add_rcpt a c) =
  if bytes_eqb b a then
    match coll_get a c with Some (n, q) => Some (S n, q) | None => Some (1, []) end
  else coll_get b c.
Proof.
  induction c as [|[a' [n q]] r IH]; cbn [coll_add_rcpt coll_get].
  - destruct (bytes_eqb b a); reflexivity.
  - destruct (bytes_eqb_spec a a') as [->|Hne]; cbn [coll_get].
    + destruct (bytes_eqb b a'); reflexivity.
    + rewrite IH. destruct (bytes_eqb_spec b a') as [->|Hne2].
      * destruct (bytes_eqb_spec a' a); [congruence | reflexivity].
      * reflexivity.
Qed.

Lemma mk_collector_get_gen rcpts c a :
  coll_get a (fold_left (fun c a => coll_add_rcpt a c) rcpts c) =
  match coll_get a c with
  | Some (n, q) => Some (n + count_addr a rcpts, q)
  | None => if (0 <? count_addr a rcpts) then Some (count_addr a rcpts, []) else None
  end.
Proof.
  revert c; induction rcpts as [|b r IH]; intros c; cbn [fold_left].
  - rewrite count_addr_nil. cbn. destruct (coll_get a c) as [[n q]|]; [rewrite Nat.add_0_r|]; reflexivity.
  - rewrite IH, coll_add_rcpt_get, count_addr_cons.
    destruct (bytes_eqb_spec a b) as [->|Hne].
    + destruct (coll_get b c) as [[n q]|].
      * f_equal. f_equal. lia.
      * cbn. f_equal.
    + cbn [Nat.add]. reflexivity.
Qed.

Lemma mk_collector_cap rcpts a : cap a (mk_collector rcpts) = count_addr a rcpts.
Proof.
  unfold cap, mk_collector. rewrite mk_collector_get_gen. cbn [coll_get].
  destruct (0 <? count_addr a rcpts) eqn:E; [reflexivity|].
  apply Nat.ltb_ge in E. lia.
Qed.

Lemma mk_collector_que rcpts a : que a (mk_collector rcpts) = [].
Proof.
  unfold que, mk_collector. rewrite mk_collector_get_gen. cbn [coll_get].
  destruct (0 <? count_addr a rcpts); reflexivity.
Qed.

(* SetStatus *)
Lemma set_status_none a e c :
  cap a c <= List.length (que a c) -> set_status a e c = None.
Proof.
  unfold cap, que. induction c as [|[a' [n q]] r IH]; cbn [set_status coll_get]; intros H; [reflexivity|].
  destruct (bytes_eqb a a').
  - destruct (List.length q <? n) eqn:E; [apply Nat.ltb_lt in E; lia | reflexivity].
  - rewrite IH by exact H. reflexivity.
Qed.

Lemma set_status_some a e c :
  List.length (que a c) < cap a c ->
  exists c', set_status a e c = Some c' /\
    (forall b, cap b c' = cap b c) /\
    (forall b, que b c' = if bytes_eqb b a then que a c ++ [e] else que b c) /\
    S (room c') = room c.
Proof.
  unfold cap, que. induction c as [|[a' [n q]] r IH]; cbn [set_status coll_get]; intros H; [lia|].
  destruct (bytes_eqb_spec a a') as [->|Hne].
  - assert (E : (List.length q <? n) = true) by (apply Nat.ltb_lt; exact H). rewrite E.
    eexists; split; [reflexivity|]. repeat split.
    + intros b. cbn [coll_get]. destruct (bytes_eqb b a'); reflexivity.
    + intros b. cbn [coll_get]. destruct (bytes_eqb b a'); reflexivity.
    + cbn [room fold_right]. rewrite app_length. cbn [List.length]. fold (room r). lia.
  - destruct (IH H) as (c' & Hs & Hc & Hq & Hr). rewrite Hs. cbn [option_map].
    eexists; split; [reflexivity|]. repeat split.
    + intros b. cbn [coll_get]. destruct (bytes_eqb b a'); [reflexivity | apply Hc].
    + intros b. cbn [coll_get]. specialize (Hq b).
      destruct (bytes_eqb_spec b a') as [->|Hne2].
      * destruct (bytes_eqb_spec a' a); [congruence | reflexivity].
      * exact Hq.
    + cbn [room fold_right]. fold (room c') (room r). lia.
Qed.

Lemma set_status_inv a e c c' :
  set_status a e c = Some c' -> List.length (que a c) < cap a c.
Proof.
  intros H. destruct (Nat.lt_ge_cases (List.length (que a c)) (cap a c)) as [L|G]; [exact L|].
  rewrite (set_status_none a e c G) in H. discriminate.
Qed.

(* <-ch *)
Lemma pop_status_none a c : que a c = [] -> pop_status a c = None.
Proof.
  unfold que. induction c as [|[a' [n q]] r IH]; cbn [pop_status coll_get]; intros H; [reflexivity|].
  destruct (bytes_eqb a a').
  - subst q. reflexivity.
  - rewrite IH by exact H. reflexivity.
Qed.

Lemma pop_status_some a c e q' :
  que a c = e :: q' ->
  exists c', pop_status a c = Some (e, c') /\
    (forall b, cap b c' = cap b c) /\
    (forall b, que b c' = if bytes_eqb b a then q' else que b c) /\
    room c' <= S (room c).
Proof.
  unfold cap, que. induction c as [|[a' [n q]] r IH]; cbn [pop_status coll_get]; intros H; [discriminate|].
  destruct (bytes_eqb_spec a a') as [->|Hne].
  - subst q. eexists; split; [reflexivity|]. repeat split.
    + intros b. cbn [coll_get]. destruct (bytes_eqb b a'); reflexivity.
    + intros b. cbn [coll_get]. destruct (bytes_eqb b a'); reflexivity.
    + cbn [room fold_right List.length]. fold (room r). lia.
  - destruct (IH H) as (c' & Hs & Hc & Hq & Hr). rewrite Hs.
    eexists; split; [reflexivity|]. repeat split.
    + intros b. cbn [coll_get]. destruct (bytes_eqb b a'); [reflexivity | apply Hc].
    + intros b. cbn [coll_get]. specialize (Hq b).
      destruct (bytes_eqb_spec b a') as [->|Hne2].
      * destruct (bytes_eqb_spec a' a); [congruence | reflexivity].
      * exact Hq.
    + cbn [room fold_right]. fold (room c') (room r). lia.
Qed.

(* fillRemaining *)
Lemma fill_remaining_get e c a :
  coll_get a (fill_remaining e c) =
  match coll_get a c with
  | Some (n, q) => Some (n, q ++ repeat e (n - List.length q))
  | None => None
  end.
Proof.
  unfold fill_remaining. induction c as [|[a' [n q]] r IH]; cbn [map coll_get]; [reflexivity|].
  destruct (bytes_eqb a a'); [reflexivity | exact IH].
Qed.

Lemma fill_remaining_cap e c a : cap a (fill_remaining e c) = cap a c.
Proof. unfold cap. rewrite fill_remaining_get. destruct (coll_get a c) as [[n q]|]; reflexivity. Qed.

Lemma fill_remaining_que e c a :
  que a (fill_remaining e c) = que a c ++ repeat e (cap a c - List.length (que a c)).
Proof.
  unfold que, cap. rewrite fill_remaining_get. destruct (coll_get a c) as [[n q]|]; reflexivity.
Qed.

(* ---------- list helpers ---------- *)

Lemma skipn_cons_nth {A} (l : list A) k x r d :
  skipn k l = x :: r -> nth k l d = x /\ skipn (S k) l = r /\ k < List.length l.
Proof.
  revert k; induction l as [|y l IH]; intros k H.
  - rewrite skipn_nil in H. discriminate.
  - destruct k as [|k].
    + cbn in H. inversion H; subst. cbn. repeat split. lia.
    + cbn [skipn] in H. destruct (IH k H) as (H1 & H2 & H3). cbn [nth List.length].
      repeat split; [exact H1 | exact H2 | lia].
Qed.

Lemma skipn_nil_length {A} (l : list A) k : skipn k l = [] -> List.length l <= k.
Proof.
  intros H. pose proof (skipn_length k l) as L. rewrite H in L. cbn in L. lia.
Qed.

Lemma skipn_snoc {A} (l : list A) k x : k <= List.length l -> skipn k (l ++ [x]) = skipn k l ++ [x].
Proof.
  intros H. rewrite skipn_app. replace (k - List.length l) with 0 by lia. reflexivity.
Qed.

Lemma repeat_snoc {A} (x : A) n : repeat x (S n) = repeat x n ++ [x].
Proof. induction n as [|n IH]; [reflexivity|]. cbn [repeat app] in *. rewrite <- IH. reflexivity. Qed.

Lemma nth_app_repeat (l : list berr) e n k d :
  k < List.length (l ++ repeat e n) -> nth k (l ++ repeat e n) d = nth k l e.
Proof.
  intros H. rewrite app_length, repeat_length in H.
  destruct (Nat.lt_ge_cases k (List.length l)) as [L|G].
  - rewrite app_nth1 by exact L. apply nth_indep. exact L.
  - rewrite app_nth2 by exact G. rewrite (nth_overflow l) by exact G.
    rewrite (nth_indep _ d e) by (rewrite repeat_length; lia). apply nth_repeat.
Qed.

(* ---------- emission in RCPT order ---------- *)

(* [hist a]: everything ever sent on a's channel; the channel holds what has
   not been received yet *)
Lemma emit_statuses_spec (hist : bytes -> list berr) rcpts : forall seen c,
  (forall a, que a c = skipn (count_addr a seen) (hist a)) ->
  (forall a, count_addr a (seen ++ rcpts) <= List.length (hist a)) ->
  emit_statuses rcpts c = assign (fun a k => nth k (hist a) BNil) seen rcpts.
Proof.
  induction rcpts as [|a r IH]; intros seen c Hq Hn; cbn [emit_statuses assign]; [reflexivity|].
  assert (Hlt : count_addr a seen < List.length (hist a)).
  { specialize (Hn a). rewrite count_addr_app, count_addr_cons, bytes_eqb_refl in Hn. lia. }
  destruct (skipn (count_addr a seen) (hist a)) as [|e q'] eqn:Es.
  { apply skipn_nil_length in Es. lia. }
  destruct (skipn_cons_nth _ _ _ _ BNil Es) as (Hnth & Hsk & _).
  assert (Hqa : que a c = e :: q') by (rewrite Hq; exact Es).
  destruct (pop_status_some a c e q' Hqa) as (c' & Hp & _ & Hq' & _). rewrite Hp.
  rewrite Hnth. f_equal. apply IH.
  - intros b. rewrite Hq', count_addr_snoc. destruct (bytes_eqb_spec b a) as [->|Hne].
    + rewrite Nat.add_1_r. symmetry. exact Hsk.
    + rewrite Nat.add_0_r. apply Hq.
  - intros b. rewrite <- app_assoc. apply Hn.
Qed.

(* ---------- sequential execution (Lmtp.v) ---------- *)

(* the contract, relative to the calls already made for [seen] *)
Definition contract_from (rcpts seen : list bytes) (calls : list (bytes * berr)) : Prop :=
  forall a, In a (map fst calls) ->
            count_addr a seen + List.length (calls_for a calls) <= count_addr a rcpts.

Lemma ok_calls_from_prefix rcpts calls : forall seen,
  exists post, calls = ok_calls_from rcpts seen calls ++ post.
Proof.
  induction calls as [|[a e] r IH]; intros seen; cbn [ok_calls_from].
  - exists []. reflexivity.
  - destruct (count_addr a seen <? count_addr a rcpts).
    + destruct (IH (seen ++ [a])) as [post Hp]. exists post. cbn [app]. rewrite <- Hp. reflexivity.
    + eexists. reflexivity.
Qed.

Lemma ok_calls_from_contract rcpts calls : forall seen,
  ok_calls_from rcpts seen calls = calls <-> contract_from rcpts seen calls.
Proof.
  induction calls as [|[a e] r IH]; intros seen.
  - split; [intros _ b [] | reflexivity].
  - cbn [ok_calls_from]. split.
    + intros H. destruct (count_addr a seen <? count_addr a rcpts) eqn:E; [|discriminate].
      apply Nat.ltb_lt in E. injection H as H. apply IH in H.
      intros b Hb. rewrite calls_for_cons. cbn [map fst In] in Hb.
      destruct (bytes_eqb_spec b a) as [->|Hne].
      * cbn [List.length]. destruct (in_dec (list_eq_dec ascii_dec) a (map fst r)) as [Hin|Hnin].
        -- specialize (H a Hin). rewrite count_addr_snoc, bytes_eqb_refl in H. lia.
        -- rewrite calls_for_length.
           assert (count_addr a (map fst r) = 0).
           { destruct (count_addr a (map fst r)) eqn:Ec; [reflexivity|].
             exfalso. apply Hnin. apply count_addr_in. lia. }
           lia.
      * destruct Hb as [Hb|Hb]; [congruence|]. specialize (H b Hb).
        rewrite count_addr_snoc in H. destruct (bytes_eqb_spec b a); [congruence|]. lia.
    + intros H.
      assert (E : count_addr a seen < count_addr a rcpts).
      { specialize (H a (or_introl eq_refl)). rewrite calls_for_cons, bytes_eqb_refl in H.
        cbn [List.length] in H. lia. }
      apply Nat.ltb_lt in E. rewrite E. f_equal. apply IH.
      intros b Hb. specialize (H b (or_intror Hb)). rewrite calls_for_cons in H.
      rewrite count_addr_snoc. destruct (bytes_eqb b a); cbn [List.length] in H; lia.
Qed.

Lemma contract_ok_iff rcpts calls :
  contract_ok rcpts calls = true <-> contract_from rcpts [] calls.
Proof.
  unfold contract_ok, contract_from. rewrite forallb_forall. split.
  - intros H a Ha. apply in_map_iff in Ha as ([a' e] & <- & Hin).
    specialize (H _ Hin). apply andb_true_iff in H as [_ H]. apply Nat.leb_le in H.
    rewrite count_addr_nil. exact H.
  - intros H [a e] Hin. cbn [fst].
    assert (Ha : In a (map fst calls)) by (apply in_map_iff; exists (a, e); auto).
    specialize (H a Ha). rewrite count_addr_nil in H. cbn [Nat.add] in H.
    apply andb_true_iff. split.
    + rewrite existsb_count. apply Nat.ltb_lt.
      apply count_addr_in in Ha. rewrite <- calls_for_length in Ha. lia.
    + apply Nat.leb_le. exact H.
Qed.

Lemma contract_ok_ok_calls rcpts calls :
  contract_ok rcpts calls = true <-> ok_calls rcpts calls = calls.
Proof. rewrite contract_ok_iff. unfold ok_calls. symmetry. apply ok_calls_from_contract. Qed.

Lemma ok_calls_length_contract rcpts calls :
  (List.length (ok_calls rcpts calls) =? List.length calls) = contract_ok rcpts calls.
Proof.
  apply Bool.eq_true_iff_eq. rewrite Nat.eqb_eq, contract_ok_ok_calls. split.
  - intros H. destruct (ok_calls_from_prefix rcpts calls []) as [post Hp].
    fold (ok_calls rcpts calls) in Hp. rewrite Hp in H at 2. rewrite app_length in H.
    assert (post = []) by (destruct post; [reflexivity | cbn in H; lia]).
    subst post. rewrite app_nil_r in Hp. symmetry. exact Hp.
  - intros H. rewrite H. reflexivity.
Qed.

Lemma run_statuses_spec rcpts calls : forall seen c,
  (forall a, cap a c = count_addr a rcpts) ->
  (forall a, List.length (que a c) = count_addr a seen) ->
  exists c',
    run_statuses calls c =
      (c', negb (List.length (ok_calls_from rcpts seen calls) =? List.length calls)) /\
    (forall a, cap a c' = count_addr a rcpts) /\
    (forall a, que a c' = que a c ++ calls_for a (ok_calls_from rcpts seen calls)).
Proof.
  induction calls as [|[a e] r IH]; intros seen c Hc Hq; cbn [run_statuses ok_calls_from].
  - exists c. repeat split; [exact Hc|]. intros a. rewrite calls_for_nil, app_nil_r. reflexivity.
  - destruct (count_addr a seen <? count_addr a rcpts) eqn:E.
    + apply Nat.ltb_lt in E.
      destruct (set_status_some a e c) as (c1 & Hs & Hc1 & Hq1 & _).
      { rewrite Hc, Hq. exact E. }
      rewrite Hs.
      destruct (IH (seen ++ [a]) c1) as (c' & Hr & Hc' & Hq').
      { intros b. rewrite Hc1. apply Hc. }
      { intros b. rewrite Hq1, count_addr_snoc. destruct (bytes_eqb b a) eqn:Eb.
        - apply bytes_eqb_eq in Eb. subst b. rewrite app_length, Hq. reflexivity.
        - rewrite Hq. lia. }
      exists c'. repeat split; [exact Hr | exact Hc' |].
      intros b. rewrite Hq', Hq1, calls_for_cons. destruct (bytes_eqb_spec b a) as [->|Hne].
      * rewrite <- app_assoc. reflexivity.
      * reflexivity.
    + apply Nat.ltb_ge in E. rewrite set_status_none by (rewrite Hc, Hq; exact E).
      exists c. repeat split; [exact Hc|]. intros b. rewrite calls_for_nil, app_nil_r. reflexivity.
Qed.

(* fillRemaining fv followed by the emission *)
Lemma emit_fill rcpts okc fv c :
  (forall a, cap a c = count_addr a rcpts) ->
  (forall a, que a c = calls_for a okc) ->
  emit_statuses rcpts (fill_remaining fv c) = expected_statuses rcpts okc fv.
Proof.
  intros Hc Hq. unfold expected_statuses.
  rewrite (emit_statuses_spec (fun a => que a (fill_remaining fv c)) rcpts [] (fill_remaining fv c)).
  - apply assign_ext. intros a k Hk. cbn [app] in Hk. unfold status_of.
    rewrite fill_remaining_que, Hq. apply nth_app_repeat.
    rewrite app_length, repeat_length, Hc. lia.
  - intros a. reflexivity.
  - intros a. cbn [app]. rewrite fill_remaining_que, app_length, repeat_length, Hc. lia.
Qed.

(* What the collector hands out, for ALL recipient lists, call lists, return
   values: the calls before the first contract violation take effect, the
   rest is filled with the return value, or with errPanic after a panic; a
   panic is reported iff the backend panicked or broke the contract. *)
Theorem lmtp_statuses_spec rcpts calls ret panic :
  lmtp_statuses rcpts calls ret panic =
  let p := panic || negb (contract_ok rcpts calls) in
  (expected_statuses rcpts (ok_calls rcpts calls) (if p then err_panic else ret), p).
Proof.
  unfold lmtp_statuses.
  destruct (run_statuses_spec rcpts calls [] (mk_collector rcpts)) as (c' & Hr & Hc & Hq).
  { apply mk_collector_cap. }
  { intros a. rewrite mk_collector_que. reflexivity. }
  fold (ok_calls rcpts calls) in Hr, Hq. rewrite Hr, ok_calls_length_contract.
  assert (Hq' : forall a, que a c' = calls_for a (ok_calls rcpts calls)).
  { intros a. rewrite Hq, mk_collector_que. reflexivity. }
  cbv zeta. rewrite (orb_comm panic).
  destruct (negb (contract_ok rcpts calls) || panic);
    rewrite (emit_fill rcpts (ok_calls rcpts calls)) by assumption; reflexivity.
Qed.

(* within the contract: exactly the specified statuses, no panic *)
Theorem lmtp_statuses_expected rcpts calls ret :
  contract_ok rcpts calls = true ->
  lmtp_statuses rcpts calls ret false = (expected_statuses rcpts calls ret, false).
Proof.
  intros H. rewrite lmtp_statuses_spec. cbv zeta. rewrite H. cbn [negb orb].
  apply contract_ok_ok_calls in H. rewrite H. reflexivity.
Qed.

(* always: one status per recipient, in RCPT order, each naming its
   recipient (the emission never finds an empty channel); a panic is reported
   iff the backend panicked or broke the contract, and then the k-th
   occurrence of an address gets the k-th call made for it before the first
   violating call, else errPanic *)
Theorem lmtp_statuses_total rcpts calls ret panic :
  map fst (fst (lmtp_statuses rcpts calls ret panic)) = rcpts /\
  snd (lmtp_statuses rcpts calls ret panic) = (panic || negb (contract_ok rcpts calls)) /\
  (panic || negb (contract_ok rcpts calls) = true ->
   fst (lmtp_statuses rcpts calls ret panic) =
   expected_statuses rcpts (ok_calls rcpts calls) err_panic) /\
  (panic || negb (contract_ok rcpts calls) = false ->
   fst (lmtp_statuses rcpts calls ret panic) = expected_statuses rcpts calls ret).
Proof.
  rewrite lmtp_statuses_spec. cbv zeta. cbn [fst snd]. repeat split.
  - apply expected_names.
  - intros H. rewrite H. reflexivity.
  - intros H. rewrite H. apply orb_false_iff in H as [_ H]. apply negb_false_iff in H.
    apply contract_ok_ok_calls in H. rewrite H. reflexivity.
Qed.

(* plain backend: everybody gets the single result *)
Lemma plain_statuses_spec rcpts ret :
  plain_statuses rcpts ret = expected_statuses rcpts [] ret /\
  map fst (plain_statuses rcpts ret) = rcpts /\
  forall a e, In (a, e) (plain_statuses rcpts ret) -> e = ret.
Proof.
  repeat split.
  - unfold plain_statuses, expected_statuses. generalize (@nil bytes) as seen.
    induction rcpts as [|a r IH]; intros seen; cbn [map assign]; [reflexivity|].
    rewrite <- IH. unfold status_of. rewrite calls_for_nil. destruct (count_addr a seen); reflexivity.
  - unfold plain_statuses. rewrite map_map. cbn [fst]. apply map_id.
  - intros a e H. apply in_map_iff in H as (b & Hb & _). congruence.
Qed.

(* ---------- the two-task model: measure (no invariant needed) ---------- *)

Definition core_work (s : cstate) : nat :=
  3 * List.length (cs_todo s) + room (cs_coll s) + (if cs_parked s then 0 else 1).

Lemma pop_status_inv a c e c' :
  pop_status a c = Some (e, c') ->
  exists q', que a c = e :: q' /\
    (forall b, cap b c' = cap b c) /\
    (forall b, que b c' = if bytes_eqb b a then q' else que b c) /\
    room c' <= S (room c).
Proof.
  intros H. destruct (que a c) as [|e0 q'] eqn:Eq.
  - rewrite (pop_status_none a c Eq) in H. discriminate.
  - destruct (pop_status_some a c e0 q' Eq) as (c1 & Hp & Hc & Hq & Hr).
    rewrite Hp in H. injection H as -> ->. exists q'. repeat split; assumption.
Qed.

Lemma pop_status_none_inv a c : pop_status a c = None -> que a c = [].
Proof.
  intros H. destruct (que a c) as [|e0 q'] eqn:Eq; [reflexivity|].
  destruct (pop_status_some a c e0 q' Eq) as (c1 & Hp & _). congruence.
Qed.

Lemma chan_send_work a e s s' :
  chan_send a e s = Some s' ->
  cs_del s' = cs_del s /\ cs_fin s' = cs_fin s /\ core_work s' < core_work s.
Proof.
  unfold chan_send, core_work. intros H.
  assert (Hbuf : match set_status a e (cs_coll s) with
                 | Some c' => Some (set_coll s c') | None => None end = Some s' ->
                 cs_del s' = cs_del s /\ cs_fin s' = cs_fin s /\
                 3 * List.length (cs_todo s') + room (cs_coll s') + (if cs_parked s' then 0 else 1)
                 < 3 * List.length (cs_todo s) + room (cs_coll s) + (if cs_parked s then 0 else 1)).
  { intros Hb. destruct (set_status a e (cs_coll s)) as [c'|] eqn:Es; [|discriminate].
    injection Hb as <-. cbn [set_coll cs_del cs_fin cs_todo cs_coll cs_parked].
    pose proof (set_status_inv _ _ _ _ Es) as Hlt.
    destruct (set_status_some a e (cs_coll s) Hlt) as (c1 & Hs & _ & _ & Hr).
    rewrite Hs in Es. injection Es as <-. repeat split. lia. }
  destruct (cs_todo s) as [|a' r] eqn:Et; [exact (Hbuf H)|].
  destruct (cs_parked s && bytes_eqb a a') eqn:Ep; [|exact (Hbuf H)].
  apply andb_true_iff in Ep as [Ep _]. injection H as <-.
  cbn [cs_del cs_fin cs_todo cs_coll cs_parked List.length]. rewrite Ep. repeat split. lia.
Qed.

Section Conc.
  Variable rcpts : list bytes.
  Variable calls : list (bytes * berr).
  Variable ret : berr.
  Variable panic : bool.
  Variable ord : list bytes.

  Notation del_step := (del_step ret panic ord).
  Notation step := (step ret panic ord).
  Notation run := (run ret panic ord).
  Notation work := (work ord).

  Lemma work_eq s :
    work s = core_work s
             + match cs_del s with
               | DCalls l => List.length l + List.length ord + 2
               | DFill o _ _ => List.length o + 1
               | DDone _ => 0
               end
             + (if finished s then 0 else 1).
  Proof. reflexivity. Qed.

  (* the delivery task is never blocked: unless it has finished, its step makes progress *)
  Lemma del_step_progress s : del_done s = false -> work (del_step s) < work s.
  Proof.
    unfold del_done. intros Hd. rewrite !work_eq. unfold LmtpConc.del_step.
    destruct (cs_del s) as [[|[a e] l]|[|a o] e p|p] eqn:Ed; try discriminate.
    - destruct panic; unfold core_work, finished; cbn [set_del cs_del cs_todo cs_coll cs_parked cs_fin List.length]; lia.
    - destruct (chan_send a e s) as [s'|] eqn:Es.
      + destruct (chan_send_work _ _ _ _ Es) as (_ & Hf & Hw).
        unfold finished, core_work in *. cbn [set_del cs_del cs_todo cs_coll cs_parked cs_fin List.length].
        rewrite Hf. lia.
      + unfold core_work, finished. cbn [set_del cs_del cs_todo cs_coll cs_parked cs_fin List.length]. lia.
    - unfold core_work, finished. cbn [set_del cs_del cs_todo cs_coll cs_parked cs_fin List.length]. lia.
    - destruct (chan_send a e s) as [s'|] eqn:Es.
      + destruct (chan_send_work _ _ _ _ Es) as (Hd' & Hf & Hw).
        unfold finished. rewrite Hd', Hf, Ed. cbn [List.length]. lia.
      + unfold core_work, finished. cbn [set_del cs_del cs_todo cs_coll cs_parked cs_fin List.length]. lia.
  Qed.

  Lemma del_step_done s : del_done s = true -> del_step s = s.
  Proof.
    unfold del_done, LmtpConc.del_step. destruct (cs_del s) as [l|o e p|p]; try discriminate. reflexivity.
  Qed.

  Lemma han_step_work s : han_step s = s \/ work (han_step s) < work s.
  Proof.
    unfold han_step. destruct (cs_fin s) as [p|] eqn:Ef; [left; reflexivity|].
    destruct (cs_todo s) as [|a r] eqn:Et.
    - destruct (cs_del s) as [l|o e p|p] eqn:Ed; try (left; reflexivity).
      right. rewrite !work_eq. unfold core_work, finished.
      cbn [cs_del cs_todo cs_coll cs_parked cs_fin List.length]. rewrite Et, Ef, Ed. cbn [List.length].
      destruct (cs_parked s); lia.
    - destruct (cs_parked s) eqn:Ep; [left; reflexivity|]. right.
      destruct (pop_status a (cs_coll s)) as [[e c']|] eqn:Epop.
      + destruct (pop_status_inv _ _ _ _ Epop) as (q' & _ & _ & _ & Hr).
        rewrite !work_eq. unfold core_work, finished.
        cbn [cs_del cs_todo cs_coll cs_parked cs_fin]. rewrite Et, Ef, Ep. cbn [List.length]. lia.
      + rewrite !work_eq. unfold core_work, finished.
        cbn [cs_del cs_todo cs_coll cs_parked cs_fin]. rewrite Et, Ef, Ep. lia.
  Qed.

  Lemma step_work s b : step s b = s \/ work (step s b) < work s.
  Proof.
    destruct b; cbn [LmtpConc.step]; [|apply han_step_work].
    destruct (del_done s) eqn:Ed; [left; apply del_step_done; exact Ed | right; apply del_step_progress; exact Ed].
  Qed.

  Lemma run_work_le sch : forall s, work (run sch s) <= work s.
  Proof.
    induction sch as [|b sch IH]; intros s; cbn [LmtpConc.run fold_left]; [lia|].
    fold (run sch (step s b)). specialize (IH (step s b)).
    destruct (step_work s b) as [H|H]; [rewrite H in *; exact IH | lia].
  Qed.

  (* either every turn of the schedule is a stutter, or work was done *)
  Lemma run_stutter_or_less sch : forall s,
    (forall b, In b sch -> step s b = s) \/ work (run sch s) < work s.
  Proof.
    induction sch as [|b sch IH]; intros s; [left; intros b []|].
    cbn [LmtpConc.run fold_left]. fold (run sch (step s b)).
    destruct (step_work s b) as [H|H].
    - rewrite H. destruct (IH s) as [L|R]; [left | right; exact R].
      intros b' [<-|Hb]; [exact H | apply L; exact Hb].
    - right. pose proof (run_work_le sch (step s b)). lia.
  Qed.

  (* ---------- the invariant ---------- *)

  Definition upd (hist : bytes -> list berr) (a : bytes) (v : list berr) : bytes -> list berr :=
    fun b => if bytes_eqb b a then v else hist b.

  Definition pick_hist (hist : bytes -> list berr) : bytes -> nat -> berr :=
    fun a k => nth k (hist a) BNil.

  (* [hist a]: all values sent on a's channel so far; [done]: the recipients
     the handler has been served for *)
  Record Core (s : cstate) (hist : bytes -> list berr) (done : list bytes) : Prop := {
    co_rcpts : rcpts = done ++ cs_todo s;
    co_cap : forall a, cap a (cs_coll s) = count_addr a rcpts;
    co_que : forall a, que a (cs_coll s) = skipn (count_addr a done) (hist a);
    co_cnt : forall a, count_addr a done <= List.length (hist a);
    co_out : cs_out s = assign (pick_hist hist) [] done;
    co_parked : cs_parked s = true ->
                exists a r, cs_todo s = a :: r /\ List.length (hist a) <= count_addr a done
  }.

  Lemma Core_set_del s hist done d : Core s hist done -> Core (set_del s d) hist done.
  Proof. intros [H1 H2 H3 H4 H5 H6]. constructor; assumption. Qed.

  Lemma assign_hist_snoc hist a e seen done :
    (forall b, count_addr b (seen ++ done) <= List.length (hist b)) ->
    assign (pick_hist (upd hist a (hist a ++ [e]))) seen done = assign (pick_hist hist) seen done.
  Proof.
    intros H. apply assign_ext. intros b k Hk. unfold pick_hist, upd.
    destruct (bytes_eqb_spec b a) as [->|Hne]; [|reflexivity].
    apply app_nth1. specialize (H a). lia.
  Qed.

  Lemma chan_send_some s hist done a e s' :
    Core s hist done -> chan_send a e s = Some s' ->
    exists done', Core s' (upd hist a (hist a ++ [e])) done'.
  Proof.
    intros [H1 H2 H3 H4 H5 H6] H. unfold chan_send in H.
    assert (Hbuf : (cs_parked s = true -> exists a' r, cs_todo s = a' :: r /\ a <> a') ->
                   match set_status a e (cs_coll s) with
                   | Some c' => Some (set_coll s c') | None => None end = Some s' ->
                   Core s' (upd hist a (hist a ++ [e])) done).
    { intros Hnp Hb. destruct (set_status a e (cs_coll s)) as [c'|] eqn:Es; [|discriminate].
      injection Hb as <-.
      pose proof (set_status_inv _ _ _ _ Es) as Hlt.
      destruct (set_status_some a e (cs_coll s) Hlt) as (c1 & Hs & Hc & Hq & _).
      rewrite Hs in Es. injection Es as <-.
      constructor; cbn [set_coll cs_coll cs_todo cs_parked cs_out].
      - exact H1.
      - intros b. rewrite Hc. apply H2.
      - intros b. rewrite Hq. unfold upd. destruct (bytes_eqb_spec b a) as [->|Hne].
        + rewrite H3. symmetry. apply skipn_snoc. apply H4.
        + apply H3.
      - intros b. unfold upd. destruct (bytes_eqb_spec b a) as [->|Hne];
          [rewrite app_length; specialize (H4 a); lia | apply H4].
      - rewrite H5. symmetry. apply assign_hist_snoc. intros b. apply H4.
      - intros Hp. destruct (H6 Hp) as (a0 & r0 & Ht & Hl).
        destruct (Hnp Hp) as (a1 & r1 & Ht1 & Hne). rewrite Ht in Ht1. injection Ht1 as <- <-.
        exists a0, r0. split; [exact Ht|]. unfold upd.
        destruct (bytes_eqb_spec a0 a); [congruence | exact Hl]. }
    destruct (cs_todo s) as [|a' r] eqn:Et.
    { exists done. apply Hbuf; [|exact H]. intros Hp. destruct (H6 Hp) as (? & ? & ? & _). discriminate. }
    destruct (cs_parked s && bytes_eqb a a') eqn:Ep.
    - (* hand-off *)
      apply andb_true_iff in Ep as [Ep Ea]. apply bytes_eqb_eq in Ea. subst a'.
      injection H as <-. destruct (H6 Ep) as (a0 & r0 & Ht & Hl). injection Ht as <- <-.
      assert (Hk : count_addr a done = List.length (hist a)) by (specialize (H4 a); lia).
      exists (done ++ [a]). constructor; cbn [cs_coll cs_todo cs_parked cs_out].
      + rewrite <- app_assoc. exact H1.
      + exact H2.
      + intros b. rewrite H3, count_addr_snoc. unfold upd.
        destruct (bytes_eqb_spec b a) as [->|Hne].
        * rewrite !skipn_all2; [reflexivity | rewrite app_length; cbn; lia | lia].
        * rewrite Nat.add_0_r. reflexivity.
      + intros b. rewrite count_addr_snoc. unfold upd. destruct (bytes_eqb_spec b a) as [->|Hne].
        * rewrite app_length. cbn. lia.
        * specialize (H4 b). lia.
      + rewrite assign_app. cbn [assign app]. rewrite assign_hist_snoc by (intros b; apply H4).
        rewrite H5. f_equal. f_equal. f_equal. unfold pick_hist, upd. rewrite bytes_eqb_refl, Hk.
        rewrite nth_middle. reflexivity.
      + discriminate.
    - apply andb_false_iff in Ep. exists done. apply Hbuf; [|exact H].
      intros Hp. exists a', r. split; [reflexivity|].
      destruct Ep as [Ep|Ep]; [congruence|]. intros ->. rewrite bytes_eqb_refl in Ep. discriminate.
  Qed.

  (* a failed send: the channel is full *)
  Lemma chan_send_none s hist done a e :
    Core s hist done -> chan_send a e s = None ->
    count_addr a rcpts + count_addr a done <= List.length (hist a).
  Proof.
    intros [H1 H2 H3 H4 H5 H6] H. unfold chan_send in H.
    assert (Hbuf : set_status a e (cs_coll s) = None).
    { destruct (cs_todo s) as [|a' r]; [|destruct (cs_parked s && bytes_eqb a a'); [discriminate|]];
        destruct (set_status a e (cs_coll s)); try discriminate; reflexivity. }
    destruct (Nat.lt_ge_cases (List.length (que a (cs_coll s))) (cap a (cs_coll s))) as [L|G].
    - destruct (set_status_some a e _ L) as (c1 & Hs & _). congruence.
    - rewrite H2, H3, skipn_length in G. specialize (H4 a). lia.
  Qed.

  Definition fv (p : bool) : berr := if p then err_panic else ret.
  Definition filled (hist : bytes -> list berr) (a : bytes) : Prop :=
    count_addr a rcpts <= List.length (hist a).
  Definition flag_ok (pre : list (bytes * berr)) (p : bool) : Prop :=
    (p = false -> pre = calls /\ panic = false) /\
    (contract_ok rcpts calls = true -> pre = calls /\ p = panic).
  Definition fills (pre : list (bytes * berr)) (e : berr) (hist : bytes -> list berr) : Prop :=
    exists f : bytes -> nat, forall a, hist a = calls_for a pre ++ repeat e (f a).

  (* [pre]: the SetStatus calls that have succeeded *)
  Definition DelInv (d : dstate) (pre : list (bytes * berr)) (hist : bytes -> list berr) : Prop :=
    match d with
    | DCalls l => calls = pre ++ l /\ forall a, hist a = calls_for a pre
    | DFill o e p =>
        (exists post, calls = pre ++ post) /\ e = fv p /\ flag_ok pre p /\ fills pre e hist /\
        (forall a, In a ord -> In a o \/ filled hist a)
    | DDone p =>
        (exists post, calls = pre ++ post) /\ flag_ok pre p /\ fills pre (fv p) hist /\
        (forall a, In a ord -> filled hist a)
    end.

  Definition FinInv (s : cstate) : Prop :=
    match cs_fin s with
    | Some p => cs_todo s = [] /\ cs_del s = DDone p
    | None => True
    end.

  Definition Inv (s : cstate) : Prop :=
    exists pre hist done, Core s hist done /\ DelInv (cs_del s) pre hist /\ FinInv s.

  Lemma Inv_init : Inv (conc_init rcpts calls).
  Proof.
    exists [], (fun _ => []), []. split; [|split].
    - constructor; cbn [conc_init cs_coll cs_todo cs_parked cs_out].
      + reflexivity.
      + apply mk_collector_cap.
      + intros a. rewrite mk_collector_que. reflexivity.
      + intros a. cbn. lia.
      + reflexivity.
      + discriminate.
    - cbn. split; reflexivity.
    - exact I.
  Qed.

  Lemma filled_upd hist a v b : List.length (hist a) <= List.length v -> filled hist b -> filled (upd hist a v) b.
  Proof.
    unfold filled, upd. intros Hl Hf. destruct (bytes_eqb_spec b a) as [->|]; [lia | exact Hf].
  Qed.

  Lemma fills_upd pre e hist a : fills pre e hist -> fills pre e (upd hist a (hist a ++ [e])).
  Proof.
    intros [f Hf]. exists (fun b => if bytes_eqb b a then S (f a) else f b). intros b. unfold upd.
    destruct (bytes_eqb_spec b a) as [->|]; [|apply Hf].
    rewrite Hf, repeat_snoc, app_assoc. reflexivity.
  Qed.

  Lemma Inv_del_step s : Inv s -> Inv (del_step s).
  Proof.
    intros (pre & hist & done & HC & HD & HF). unfold LmtpConc.del_step.
    assert (Hfin : forall d, (forall p, cs_del s <> DDone p) ->
                             forall s', cs_fin s' = cs_fin s -> FinInv (set_del s' d)).
    { intros d Hnd s' Hs'. unfold FinInv. cbn [set_del cs_fin]. rewrite Hs'.
      unfold FinInv in HF. destruct (cs_fin s) as [p|]; [|exact I]. destruct HF as [_ HF].
      exfalso. exact (Hnd p HF). }
    destruct (cs_del s) as [[|[a e] l]|[|a o] e p|p] eqn:Ed.
    - (* LMTPData returns or panics *)
      destruct HD as [Hc Hh]. rewrite app_nil_r in Hc. subst pre.
      assert (Hfl : fills calls (fv panic) hist).
      { exists (fun _ => 0). intros a. rewrite Hh. cbn [repeat]. rewrite app_nil_r. reflexivity. }
      destruct panic eqn:Epanic.
      + exists calls, hist, done. split; [apply Core_set_del; exact HC|]. split.
        * cbn [set_del cs_del]. repeat split; try (exists []; rewrite app_nil_r; reflexivity); auto.
          discriminate.
        * apply Hfin; [congruence | reflexivity].
      + exists calls, hist, done. split; [apply Core_set_del; exact HC|]. split.
        * cbn [set_del cs_del]. repeat split; try (exists []; rewrite app_nil_r; reflexivity); auto.
        * apply Hfin; [congruence | reflexivity].
    - (* a SetStatus call *)
      destruct HD as [Hc Hh].
      destruct (chan_send a e s) as [s'|] eqn:Es.
      + destruct (chan_send_some _ _ _ _ _ _ HC Es) as [done' HC'].
        destruct (chan_send_work _ _ _ _ Es) as (_ & Hf' & _).
        exists (pre ++ [(a, e)]), (upd hist a (hist a ++ [e])), done'.
        split; [apply Core_set_del; exact HC'|]. split.
        * cbn [set_del cs_del]. split; [rewrite <- app_assoc; exact Hc|].
          intros b. unfold upd. rewrite calls_for_app, calls_for_cons, calls_for_nil, !Hh.
          destruct (bytes_eqb b a) eqn:Eb; [|rewrite app_nil_r; reflexivity].
          apply bytes_eqb_eq in Eb. subst b. reflexivity.
        * apply Hfin; [congruence | exact Hf'].
      + pose proof (chan_send_none _ _ _ _ _ HC Es) as Hfull.
        exists pre, hist, done. split; [apply Core_set_del; exact HC|]. split.
        * cbn [set_del cs_del]. split; [eexists; exact Hc|]. split; [reflexivity|]. split; [|split].
          -- split; [discriminate|]. intros Hok. exfalso.
             apply contract_ok_iff in Hok. specialize (Hok a).
             rewrite Hc, map_app, calls_for_app, calls_for_cons, bytes_eqb_refl, app_length in Hok.
             cbn [map fst List.length] in Hok. rewrite count_addr_nil in Hok. rewrite Hh in Hfull.
             assert (H : In a (map fst pre ++ a :: map fst l)) by (apply in_or_app; right; left; reflexivity).
             specialize (Hok H). lia.
          -- exists (fun _ => 0). intros b. rewrite Hh. cbn [repeat]. rewrite app_nil_r. reflexivity.
          -- intros b Hb. left. exact Hb.
        * apply Hfin; [congruence | reflexivity].
    - (* fillRemaining has visited all channels *)
      destruct HD as (Hp & He & Hfl & Hfi & Hall). subst e.
      exists pre, hist, done. split; [apply Core_set_del; exact HC|]. split.
      + cbn [set_del cs_del]. split; [exact Hp|]. split; [exact Hfl|]. split; [exact Hfi|].
        intros a Ha. destruct (Hall a Ha) as [[]|H]. exact H.
      + unfold FinInv. cbn [set_del cs_fin cs_todo cs_del]. unfold FinInv in HF.
        destruct (cs_fin s) as [q|]; [|exact I]. destruct HF as [_ HF]. congruence.
    - (* fillRemaining sends on a's channel *)
      destruct HD as (Hp & He & Hfl & Hfi & Hall).
      destruct (chan_send a e s) as [s'|] eqn:Es.
      + destruct (chan_send_some _ _ _ _ _ _ HC Es) as [done' HC'].
        destruct (chan_send_work _ _ _ _ Es) as (Hd' & Hf' & _).
        exists pre, (upd hist a (hist a ++ [e])), done'. split; [exact HC'|]. split.
        * rewrite Hd', Ed. cbn. split; [exact Hp|]. split; [exact He|]. split; [exact Hfl|]. split.
          -- apply fills_upd. exact Hfi.
          -- intros b Hb. destruct (Hall b Hb) as [H|H]; [left; exact H | right].
             apply filled_upd; [rewrite app_length; lia | exact H].
        * unfold FinInv. rewrite Hf', Hd'. unfold FinInv in HF.
          destruct (cs_fin s) as [q|]; [|exact I]. destruct HF as [_ HF]. congruence.
      + pose proof (chan_send_none _ _ _ _ _ HC Es) as Hfull.
        exists pre, hist, done. split; [apply Core_set_del; exact HC|]. split.
        * cbn [set_del cs_del]. split; [exact Hp|]. split; [exact He|]. split; [exact Hfl|].
          split; [exact Hfi|]. intros b Hb. destruct (Hall b Hb) as [[<-|H]|H].
          -- right. unfold filled. lia.
          -- left. exact H.
          -- right. exact H.
        * apply Hfin; [congruence | reflexivity].
    - exists pre, hist, done. rewrite Ed. auto.
  Qed.

  Lemma Inv_han_step s : Inv s -> Inv (han_step s).
  Proof.
    intros (pre & hist & done & HC & HD & HF). unfold han_step.
    destruct (cs_fin s) as [q|] eqn:Ef; [exists pre, hist, done; split; [exact HC | split; [exact HD | exact HF]]|].
    destruct HC as [H1 H2 H3 H4 H5 H6].
    destruct (cs_todo s) as [|a r] eqn:Et.
    - destruct (cs_del s) as [l|o e p|p] eqn:Ed;
        try (exists pre, hist, done; split; [constructor; rewrite ?Et; assumption|];
             split; [rewrite Ed; exact HD | unfold FinInv; rewrite Ef; exact I]).
      exists pre, hist, done. split; [|split].
      + constructor; cbn [cs_coll cs_todo cs_parked cs_out]; assumption.
      + cbn [cs_del]. exact HD.
      + unfold FinInv. cbn [cs_fin cs_todo cs_del]. split; reflexivity.
    - destruct (cs_parked s) eqn:Ep.
      { exists pre, hist, done. split; [constructor; rewrite ?Et, ?Ep; assumption|].
        split; [exact HD | unfold FinInv; rewrite Ef; exact I]. }
      destruct (pop_status a (cs_coll s)) as [[e c']|] eqn:Epop.
      + destruct (pop_status_inv _ _ _ _ Epop) as (q' & Hq & Hc' & Hq' & _).
        rewrite H3 in Hq. destruct (skipn_cons_nth _ _ _ _ BNil Hq) as (Hn & Hs & Hl).
        exists pre, hist, (done ++ [a]). split; [|split].
        * constructor; cbn [cs_coll cs_todo cs_parked cs_out].
          -- rewrite <- app_assoc. exact H1.
          -- intros b. rewrite Hc'. apply H2.
          -- intros b. rewrite Hq', count_addr_snoc. destruct (bytes_eqb_spec b a) as [->|Hne].
             ++ rewrite Nat.add_1_r. symmetry. exact Hs.
             ++ rewrite Nat.add_0_r. apply H3.
          -- intros b. rewrite count_addr_snoc. destruct (bytes_eqb_spec b a) as [->|Hne].
             ++ lia.
             ++ specialize (H4 b). lia.
          -- rewrite assign_app. cbn [assign app]. rewrite H5. unfold pick_hist at 3. rewrite Hn. reflexivity.
          -- discriminate.
        * exact HD.
        * exact I.
      + apply pop_status_none_inv in Epop. rewrite H3 in Epop. apply skipn_nil_length in Epop.
        exists pre, hist, done. split; [|split].
        * constructor; cbn [cs_coll cs_todo cs_parked cs_out]; try assumption.
          intros _. exists a, r. split; [reflexivity | exact Epop].
        * exact HD.
        * exact I.
  Qed.

  Lemma Inv_run sch : forall s, Inv s -> Inv (run sch s).
  Proof.
    induction sch as [|b sch IH]; intros s H; [exact H|].
    cbn [LmtpConc.run fold_left]. apply IH. destruct b; [apply Inv_del_step | apply Inv_han_step]; exact H.
  Qed.

  Lemma Inv_conc_run sch : Inv (conc_run rcpts calls ret panic ord sch).
  Proof. apply Inv_run, Inv_init. Qed.

  (* ---------- results of a finished run ---------- *)

  Lemma Inv_result s p :
    Inv s -> cs_fin s = Some p ->
    exists pre post, calls = pre ++ post /\
      cs_out s = expected_statuses rcpts pre (fv p) /\ flag_ok pre p.
  Proof.
    intros (pre & hist & done & [H1 H2 H3 H4 H5 H6] & HD & HF) Hfin.
    unfold FinInv in HF. rewrite Hfin in HF. destruct HF as [Ht Hd]. rewrite Hd in HD.
    destruct HD as ((post & Hp) & Hfl & (f & Hf) & _).
    rewrite Ht, app_nil_r in H1. subst done.
    exists pre, post. split; [exact Hp|]. split; [|exact Hfl].
    rewrite H5. unfold expected_statuses. apply assign_ext. intros a k Hk. cbn [app] in Hk.
    unfold pick_hist, status_of. rewrite Hf. apply nth_app_repeat. rewrite <- Hf.
    specialize (H4 a). lia.
  Qed.

  (* ---------- no deadlock ---------- *)

  (* fillRemaining visits the channel of every recipient (Go: it ranges over
     statusMap, whose keys are the recipients) *)
  Definition covers : Prop := forall a, In a rcpts -> In a ord.

  Lemma han_step_progress s :
    covers -> Inv s -> del_done s = true -> finished s = false -> work (han_step s) < work s.
  Proof.
    intros Hcov (pre & hist & done & [H1 H2 H3 H4 H5 H6] & HD & HF) Hdd Hnf.
    unfold del_done in Hdd. destruct (cs_del s) as [l|o e p|p] eqn:Ed; try discriminate.
    destruct HD as (_ & _ & _ & Hall).
    unfold finished in Hnf. destruct (cs_fin s) as [q|] eqn:Ef; [discriminate|].
    destruct (han_step_work s) as [Hs|Hw]; [|exact Hw]. exfalso.
    unfold han_step in Hs. rewrite Ef in Hs.
    destruct (cs_todo s) as [|a r] eqn:Et.
    - rewrite Ed in Hs. apply (f_equal cs_fin) in Hs. cbn in Hs. congruence.
    - assert (Hfa : filled hist a).
      { apply Hall, Hcov. rewrite H1. apply in_or_app. right. left. reflexivity. }
      unfold filled in Hfa. rewrite H1, count_addr_app, count_addr_cons, bytes_eqb_refl in Hfa.
      destruct (cs_parked s) eqn:Ep.
      + destruct (H6 eq_refl) as (a0 & r0 & Ht & Hl). injection Ht as <- <-. lia.
      + destruct (pop_status a (cs_coll s)) as [[e c']|] eqn:Epop.
        * apply (f_equal cs_todo) in Hs. cbn in Hs. rewrite Et in Hs.
          apply (f_equal (@List.length bytes)) in Hs. cbn in Hs. lia.
        * apply pop_status_none_inv in Epop. rewrite H3 in Epop. apply skipn_nil_length in Epop. lia.
  Qed.

  (* a state that is not finished always has a task whose step is not a stutter *)
  Lemma Inv_enabled s :
    covers -> Inv s -> finished s = false -> exists b, work (step s b) < work s.
  Proof.
    intros Hcov HI Hnf. destruct (del_done s) eqn:Ed.
    - exists false. apply han_step_progress; assumption.
    - exists true. apply del_step_progress. exact Ed.
  Qed.

  Lemma finished_stable s b : Inv s -> finished s = true -> step s b = s.
  Proof.
    intros (pre & hist & done & _ & _ & HF) Hf. unfold finished in Hf. unfold FinInv in HF.
    destruct (cs_fin s) as [q|] eqn:Ef; [|discriminate]. destruct HF as [_ Hd].
    destruct b; cbn [LmtpConc.step].
    - apply del_step_done. unfold del_done. rewrite Hd. reflexivity.
    - unfold han_step. rewrite Ef. reflexivity.
  Qed.

  Lemma finished_run sch : forall s, Inv s -> finished s = true -> run sch s = s.
  Proof.
    induction sch as [|b sch IH]; intros s HI Hf; [reflexivity|].
    cbn [LmtpConc.run fold_left]. rewrite (finished_stable s b HI Hf). apply IH; assumption.
  Qed.

  (* ---------- termination under fair schedules ---------- *)

  Lemma round_progress s r :
    covers -> Inv s -> finished s = false -> In true r -> In false r -> work (run r s) < work s.
  Proof.
    intros Hcov HI Hnf Ht Hf. destruct (run_stutter_or_less r s) as [Hst|Hw]; [|exact Hw].
    exfalso. destruct (Inv_enabled s Hcov HI Hnf) as [b Hb].
    assert (Hin : In b r) by (destruct b; assumption).
    rewrite (Hst b Hin) in Hb. lia.
  Qed.

  Lemma fair_terminates n sch :
    covers -> fair_rounds n sch -> forall s, Inv s -> work s <= n -> finished (run sch s) = true.
  Proof.
    intros Hcov Hfair. induction Hfair as [sch|n r sch Ht Hf Hfair IH]; intros s HI Hw.
    - destruct (finished s) eqn:Ef; [rewrite finished_run; assumption|].
      exfalso. unfold LmtpConc.work in Hw. rewrite Ef in Hw. lia.
    - unfold LmtpConc.run. rewrite fold_left_app. fold (run r s). fold (run sch (run r s)).
      destruct (finished s) eqn:Ef.
      + rewrite (finished_run r s HI Ef). rewrite finished_run; assumption.
      + apply IH; [apply Inv_run; exact HI|].
        pose proof (round_progress s r Hcov HI Ef Ht Hf). lia.
  Qed.
End Conc.

(* ---------- the theorems about handleDataLMTP under every schedule ---------- *)

Definition work_bound (rcpts : list bytes) (calls : list (bytes * berr)) (ord : list bytes) : nat :=
  4 * List.length rcpts + List.length calls + List.length ord + 4.

Lemma room_mk_collector rcpts : room (mk_collector rcpts) <= List.length rcpts.
Proof.
  unfold mk_collector.
  assert (G : forall l c, room (fold_left (fun c a => coll_add_rcpt a c) l c) <= room c + List.length l).
  { induction l as [|a l IH]; intros c; cbn [fold_left List.length]; [lia|].
    specialize (IH (coll_add_rcpt a c)).
    assert (H : room (coll_add_rcpt a c) <= S (room c)).
    { clear IH. induction c as [|[a' [n q]] r IHc]; cbn [coll_add_rcpt]; [cbn; lia|].
      destruct (bytes_eqb a a'); cbn [room fold_right].
      - fold (room r). lia.
      - fold (room (coll_add_rcpt a r)) (room r). lia. }
    lia. }
  apply (G rcpts []).
Qed.

Lemma work_init rcpts calls ord :
  work ord (conc_init rcpts calls) <= work_bound rcpts calls ord.
Proof.
  unfold work, work_bound, conc_init, finished. cbn [cs_todo cs_coll cs_parked cs_del cs_fin].
  pose proof (room_mk_collector rcpts). lia.
Qed.

(* Every schedule, every backend behaviour: when the handler has received
   from [done] (flag p = "close the connection"), it has written exactly one
   status per recipient, in RCPT order, each for its recipient; the statuses
   are the specified ones for the calls [pre] that took effect, filled with
   the return value (p = false: then all calls took effect and the backend
   did not panic) or with errPanic (p = true). *)
Theorem conc_result rcpts calls ret panic ord sch p :
  let s := conc_run rcpts calls ret panic ord sch in
  cs_fin s = Some p ->
  map fst (cs_out s) = rcpts /\
  exists pre post, calls = pre ++ post /\
    cs_out s = expected_statuses rcpts pre (if p then err_panic else ret) /\
    (p = false -> post = [] /\ panic = false).
Proof.
  intros s Hfin.
  destruct (Inv_result rcpts calls ret panic ord s p (Inv_conc_run _ _ _ _ _ sch) Hfin)
    as (pre & post & Hc & Ho & Hfl & _).
  split; [rewrite Ho; apply expected_names|].
  exists pre, post. split; [exact Hc|]. split; [exact Ho|].
  intros Hp. destruct (Hfl Hp) as [He Hpa]. split; [|exact Hpa].
  rewrite He in Hc. rewrite <- (app_nil_r calls) in Hc at 1. apply app_inv_head in Hc. congruence.
Qed.

(* Within the contract the outcome does not depend on the schedule and is the
   sequential one of Lmtp.v *)
Theorem conc_result_contract rcpts calls ret panic ord sch p :
  contract_ok rcpts calls = true ->
  let s := conc_run rcpts calls ret panic ord sch in
  cs_fin s = Some p ->
  p = panic /\
  cs_out s = fst (lmtp_statuses rcpts calls ret panic) /\
  cs_out s = expected_statuses rcpts calls (if panic then err_panic else ret).
Proof.
  intros Hok s Hfin.
  destruct (Inv_result rcpts calls ret panic ord s p (Inv_conc_run _ _ _ _ _ sch) Hfin)
    as (pre & post & Hc & Ho & _ & Hfl).
  destruct (Hfl Hok) as [-> ->]. unfold fv in Ho.
  split; [reflexivity|]. split; [|exact Ho].
  rewrite lmtp_statuses_spec. cbv zeta. rewrite Hok. cbn [negb fst]. rewrite orb_false_r.
  apply contract_ok_ok_calls in Hok. rewrite Hok. exact Ho.
Qed.

(* No reachable state is a deadlock: the delivery task is never blocked (its
   step always makes progress until it has finished), and once it has
   finished the handler is not blocked either.  So whenever the handler is
   blocked, the delivery task can move. *)
Theorem conc_no_deadlock rcpts calls ret panic ord sch :
  (forall a, In a rcpts -> In a ord) ->
  let s := conc_run rcpts calls ret panic ord sch in
  (del_done s = false -> del_step ret panic ord s <> s) /\
  (del_done s = true -> finished s = false -> han_step s <> s) /\
  (finished s = false -> exists who, step ret panic ord s who <> s).
Proof.
  intros Hcov s. pose proof (Inv_conc_run rcpts calls ret panic ord sch) as HI. fold s in HI.
  split; [|split].
  - intros Hd E. pose proof (del_step_progress ret panic ord s Hd) as H. rewrite E in H. lia.
  - intros Hd Hf E. pose proof (han_step_progress rcpts calls ret panic ord s Hcov HI Hd Hf) as H.
    rewrite E in H. lia.
  - intros Hf. destruct (Inv_enabled rcpts calls ret panic ord s Hcov HI Hf) as [b Hb].
    exists b. intros E. rewrite E in Hb. lia.
Qed.

(* Termination: a schedule made of [work_bound] rounds, each giving at least
   one turn to either task, ends with the handler finished. *)
Theorem conc_terminates rcpts calls ret panic ord sch :
  (forall a, In a rcpts -> In a ord) ->
  fair_rounds (work_bound rcpts calls ord) sch ->
  finished (conc_run rcpts calls ret panic ord sch) = true.
Proof.
  intros Hcov Hfair.
  apply (fair_terminates rcpts calls ret panic ord _ sch Hcov Hfair);
    [apply Inv_init | apply work_init].
Qed.

(* in any schedule whatsoever, every turn is a stutter or decreases [work]:
   at most [work_bound] turns are not stutters *)
Theorem conc_bounded_work rcpts calls ret panic ord sch who :
  let s := conc_run rcpts calls ret panic ord sch in
  work ord s <= work_bound rcpts calls ord /\
  (step ret panic ord s who = s \/ work ord (step ret panic ord s who) < work ord s).
Proof.
  intros s. split; [|apply step_work].
  pose proof (run_work_le ret panic ord sch (conc_init rcpts calls)).
  pose proof (work_init rcpts calls ord). unfold s, conc_run. lia.
Qed.

(* once finished, further turns change nothing *)
Theorem conc_finished_stable rcpts calls ret panic ord sch sch' :
  finished (conc_run rcpts calls ret panic ord sch) = true ->
  conc_run rcpts calls ret panic ord (sch ++ sch') = conc_run rcpts calls ret panic ord sch.
Proof.
  intros Hf. unfold conc_run, run. rewrite fold_left_app.
  apply (finished_run rcpts calls ret panic ord sch'); [apply Inv_conc_run | exact Hf].
Qed.

(* round-robin schedules are fair *)
Fixpoint round_robin (n : nat) : list bool :=
  match n with 0 => [] | S n => true :: false :: round_robin n end.

Lemma round_robin_fair n : fair_rounds n (round_robin n).
Proof.
  induction n as [|n IH]; [constructor|].
  change (round_robin (S n)) with ([true; false] ++ round_robin n).
  constructor; [left; reflexivity | right; left; reflexivity | exact IH].
Qed.

Lemma fair_rounds_app n sch extra : fair_rounds n sch -> fair_rounds n (sch ++ extra).
Proof.
  induction 1 as [sch|n r sch Ht Hf H IH]; [constructor|].
  rewrite <- app_assoc. constructor; assumption.
Qed.

(* Go's fillRemaining ranges over the keys of statusMap = the distinct
   recipients: every such order covers the recipients *)
Lemma collector_keys_cover rcpts a : In a rcpts -> In a (map fst (mk_collector rcpts)).
Proof.
  intros H. apply count_addr_in in H. rewrite <- mk_collector_cap in H.
  unfold cap in H. induction (mk_collector rcpts) as [|[a' nq] r IH]; cbn [coll_get] in H; [lia|].
  cbn [map fst]. destruct (bytes_eqb_spec a a') as [->|]; [left; reflexivity | right; apply IH; exact H].
Qed.

(* ---------- non-vacuity ---------- *)

Definition ex_a := bs "a@x".
Definition ex_b := bs "b@y".
Definition ex_e (n : Z) : berr := BSmtp (450 + n) (4, 0, n)%Z (bs "status").

(* duplicates, calls out of RCPT order, one recipient without a call *)
Example ex_expected :
  expected_statuses [ex_a; ex_b; ex_a; ex_b; ex_a]
                    [(ex_b, ex_e 1); (ex_a, ex_e 2); (ex_b, BNil); (ex_a, ex_e 4)] (BPlain (bs "ret"))
  = [(ex_a, ex_e 2); (ex_b, ex_e 1); (ex_a, ex_e 4); (ex_b, BNil); (ex_a, BPlain (bs "ret"))].
Proof. vm_compute. reflexivity. Qed.

Example ex_contract_holds :
  contract_ok [ex_a; ex_b; ex_a; ex_b; ex_a]
              [(ex_b, ex_e 1); (ex_a, ex_e 2); (ex_b, BNil); (ex_a, ex_e 4)] = true.
Proof. vm_compute. reflexivity. Qed.

Example ex_contract_broken :
  contract_ok [ex_a; ex_b] [(ex_a, ex_e 1); (ex_a, ex_e 2)] = false /\
  contract_ok [ex_a; ex_b] [(bs "c@z", ex_e 1)] = false.
Proof. vm_compute. split; reflexivity. Qed.

(* the model computes the same on that instance, and reports no panic *)
Example ex_lmtp_statuses :
  lmtp_statuses [ex_a; ex_b; ex_a; ex_b; ex_a]
                [(ex_b, ex_e 1); (ex_a, ex_e 2); (ex_b, BNil); (ex_a, ex_e 4)] (BPlain (bs "ret")) false
  = ([(ex_a, ex_e 2); (ex_b, ex_e 1); (ex_a, ex_e 4); (ex_b, BNil); (ex_a, BPlain (bs "ret"))], false).
Proof. vm_compute. reflexivity. Qed.

(* one call too many for a: the calls before it count, the rest gets errPanic *)
Example ex_lmtp_statuses_broken :
  lmtp_statuses [ex_a; ex_b; ex_a] [(ex_a, ex_e 1); (ex_a, ex_e 2); (ex_a, ex_e 3); (ex_b, ex_e 4)] BNil false
  = ([(ex_a, ex_e 1); (ex_b, err_panic); (ex_a, ex_e 2)], true).
Proof. vm_compute. reflexivity. Qed.

(* a concrete interleaving: the handler parks first, gets a's first status by
   hand-off, and the run finishes with the specified statuses *)
Example ex_conc_run :
  let s := conc_run [ex_a; ex_b; ex_a] [(ex_b, ex_e 1); (ex_a, ex_e 2)] BNil false [ex_b; ex_a]
                    [false; true; true; false; false; true; false; true; true; true; true; true; true; false; false; true; false] in
  cs_fin s = Some false /\
  cs_out s = [(ex_a, ex_e 2); (ex_b, ex_e 1); (ex_a, BNil)].
Proof. vm_compute. split; reflexivity. Qed.

(* round robin over the bound terminates (instance of conc_terminates) *)
Example ex_conc_round_robin :
  let rc := [ex_a; ex_b; ex_a] in let cl := [(ex_b, ex_e 1); (ex_a, ex_e 2)] in
  (forall a, In a rc -> In a [ex_a; ex_b]) /\
  fair_rounds (work_bound rc cl [ex_a; ex_b]) (round_robin (work_bound rc cl [ex_a; ex_b])) /\
  finished (conc_run rc cl BNil false [ex_a; ex_b] (round_robin (work_bound rc cl [ex_a; ex_b]))) = true.
Proof.
  cbv zeta. split; [|split].
  - cbn. tauto.
  - apply round_robin_fair.
  - vm_compute. reflexivity.
Qed.

(* OUTSIDE the contract the outcome of handleDataLMTP depends on the
   schedule.  Recipients a, b; the backend sets a twice, then b.  If the
   delivery task runs first, the second call finds a's channel full and
   panics: b gets 421 and the connection is closed.  If the handler has
   parked on a's channel first, the first status is handed over directly, the
   second call fits into the buffer, nothing panics and b gets its status. *)
Example ex_schedule_dependence :
  let rc := [ex_a; ex_b] in
  let cl := [(ex_a, ex_e 1); (ex_a, ex_e 2); (ex_b, ex_e 3)] in
  let s1 := conc_run rc cl BNil false rc (repeat true 10 ++ repeat false 4) in
  let s2 := conc_run rc cl BNil false rc (false :: repeat true 10 ++ repeat false 4) in
  (cs_fin s1 = Some true /\ cs_out s1 = [(ex_a, ex_e 1); (ex_b, err_panic)]) /\
  (cs_fin s2 = Some false /\ cs_out s2 = [(ex_a, ex_e 1); (ex_b, ex_e 3)]) /\
  lmtp_statuses rc cl BNil false = ([(ex_a, ex_e 1); (ex_b, err_panic)], true).
Proof. vm_compute. repeat split; reflexivity. Qed.
