(* kind wtmo: Server.WriteTimeout and an LMTP backend that takes its time - the
   real LMTP server (WriteTimeout 300 ms) on a TCP loopback socket, a backend
   that reads the message, sets per-recipient statuses and SLEEPS in between
   (fixed delays of 3 x WriteTimeout), a client that sends the whole
   conversation at once and reads until the server closes
   (harness/genwtmo.go).

   No model is run (the scripted transport has no clock).  Judged here, on
   what the CLIENT received and on the backend's recorded callbacks:

   * C13, from the property text: the replies number before+1 .. before+n -
     the final response to DATA / BDAT LAST - are exactly the lines the
     generator states: one per accepted recipient, in RCPT order, each
     reporting the status set for that recipient (the k-th status set for an
     address belongs to its k-th occurrence), else LMTPData's return value;
     and the complete list of reply codes of the conversation is the expected
     one, i.e. the NOOP and the QUIT behind the message were answered
     (expect-codes);
   * the session monitor (C03, C08), reply syntax (C04), the size oracle
     (C06), no recovered panic (C19);
   * the scenario ran to its end - the server closed the connection after
     QUIT, its handler and the backend's goroutines finished, and what the
     client received is what the server's successful writes amount to:
     otherwise the case is reported as a disagreement. *)
From Smtp Require Import Bytes Sx GoStrings Transport DataReader Reply Lmtp Conn CheckBase CheckOracle CheckConv CheckTmo.

(* (final-replies <before> (<line> ...)) *)
Definition final_replies_ok (expect : list sx) (client : bytes) : bool :=
  match assoc "final-replies" expect with
  | Some [b; SL ls] =>
      match sx_nat b, map_opt sx_bytes ls with
      | Some b, Some want =>
          let finals := filter line_final (wire_lines client) in
          list_bytes_eqb want (firstn (List.length want) (skipn b finals))
      | _, _ => false
      end
  | _ => true
  end.

Definition is_wire (e : event) : bool := match e with EWire _ => true | _ => false end.

Definition check_wtmo (args : list sx) : verdict :=
  match assoc "cfg" args, assoc "obs" args with
  | Some cfga, Some obs =>
      match dec_cfg cfga, assoc1 "events" obs, assoc1 "deliveries" obs, assoc1 "panics" obs, assoc1 "client" obs with
      | Some cfg, Some (SL evx), Some (SL delx), Some px, Some cx =>
          match map_opt dec_event evx, map_opt dec_event delx, sx_N px, sx_bytes cx with
          | Some evs, Some dels, Some panics, Some client =>
              let expect := match assoc "expect" args with Some e => e | None => [] end in
              let focus := focus_of expect in
              (* the expectations speak about what the client received *)
              let cevs := EWire client :: filter (fun e => negb (is_wire e)) evs in
              let ran := tmo_flag "closed" obs && tmo_flag "waited" obs && tmo_flag "served" obs
                         && bytes_eqb client (all_wire evs) in
              let '(syn_viol, syn_kf) := oracle_syntax true cevs in
              let viol :=
                dedup (oracle_sessions cfg evs ++ oracle_size cfg (evs ++ dels)
                       ++ oracle_panics panics false
                       ++ focus_oracle expect cevs dels
                       ++ (if final_replies_ok expect client then [] else [focus])
                       ++ syn_viol) in
              mkV true ran (SL []) viol syn_kf
                  ([bs "focus-" ++ focus; bs "wtmo-" ++ tmo_atom "name" args;
                    bs "xfer-" ++ tmo_atom "xfer" args; bs "lmtp"]
                   ++ (if existsb (fun e => match e with EData _ _ _ _ => true | _ => false end) evs then [bs "c13-oracle-data"] else [])
                   ++ (if existsb (fun e => match e with EDelivery _ _ _ _ => true | _ => false end) dels then [bs "c13-oracle-bdat"] else []))
          | _, _, _, _ => bad_case
          end
      | _, _, _, _, _ => bad_case
      end
  | _, _ => bad_case
  end.
