(* C19 (part: no recovered panic) - arbitrary octets from the network never
   trigger a recovered panic.

   C19_panic_only_from_backend: for EVERY configuration, backend script,
   network schedule and fuel: if the model recovers a panic ([EPanic]: the
   deferred recover() in Conn.handle, which answers 421 and closes), then a
   backend delivery ([Session.Data] / [LMTPSession.LMTPData], on the DATA or
   BDAT path) has panicked while the current command was being handled.
   C19_no_recovered_panic: if the backend script contains no panicking data
   plan - and, for an LMTP backend with per-recipient statuses, no SetStatus
   call that could violate the statusCollector contract ([backend_ok]; the
   plan the model uses once the script is exhausted qualifies) - then no input
   whatsoever makes the model recover a panic.  In particular the model's
   explicit failure points for a nil session (handle_mail, handle_rcpt,
   handle_data, handle_bdat: "c.Session() == nil" would be a nil-pointer
   panic in Go) are unreachable: this is the model-level statement that the
   nil-session panic of DESIGN F10 (RCPT after QUIT) cannot happen any more.
   C19_no_panicking_delivery: under [backend_ok] no delivery event reports a
   panic. *)
From Smtp Require Import Bytes Transport Reply Conn Order OrderStrict ConnProofs TraceProps ConnNoPanic
  TraceExamples.

Theorem C19_panic_only_from_backend : forall fuel cfg be phases,
  TraceProps.C19_panic_only_from_backend (serve fuel cfg be phases).
Proof. exact serve_C19_panic_only_from_backend. Qed.
Print Assumptions C19_panic_only_from_backend.

Theorem C19_no_panicking_delivery : forall fuel cfg be phases,
  backend_ok cfg be -> forall e, In e (serve fuel cfg be phases) -> is_panicking e = false.
Proof. exact serve_calm. Qed.
Print Assumptions C19_no_panicking_delivery.

Theorem C19_no_recovered_panic : forall fuel cfg be phases,
  backend_ok cfg be -> ~ In EPanic (serve fuel cfg be phases).
Proof. exact serve_no_panic. Qed.
Print Assumptions C19_no_recovered_panic.

(* non-vacuity: ex1's backend satisfies the hypothesis (and its conversation
   contains a late RCPT after the transaction end and a command behind QUIT);
   the hypothesis is necessary: in ex2 the second data plan panics, and the
   panic is recovered right after that delivery (421, Logout, Close). *)
Example C19_witness :
  backend_ok ex1_cfg ex1_be /\ map show_kind ex1_trace = ex1_shape /\
  map show_kind ex2_trace = ex2_shape /\ In EPanic ex2_trace /\
  existsb is_panicking (since is_cmd (firstn 27 ex2_trace)) = true.
Proof.
  split; [exact ex1_backend_ok|]. split; [exact ex1_shape_ok|]. split; [exact ex2_shape_ok|].
  split; [|vm_compute; reflexivity].
  assert (H : nth 27 ex2_trace EClose = EPanic) by (vm_compute; reflexivity).
  rewrite <- H. apply nth_In. vm_compute. lia.
Qed.
