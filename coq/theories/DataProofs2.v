(* The DATA reader beyond C01: the end marker and its look-alikes (spec level),
   reads with any stopping point, the post-delivery drain (C02), the size
   limit (C06) and cut streams (C07). *)
From Smtp Require Import Bytes Transport DataReader DotSpec TransportProofs DataProofs.

(* ====================================================================== *)
(* Part A: facts about the specification [unstuff] alone                  *)
(* ====================================================================== *)

(* the end-of-data marker line ".CRLF" *)
Definition end_marker : bytes := [DOT; CR; LF].

(* a position at a line start: nothing before it, or a CRLF just before it *)
Definition ends_crlf (p : bytes) : Prop := p = [] \/ exists p', p = p' ++ [CR; LF].

(* the result is Complete and leaves at least n octets unread *)
Definition rest_ge (n : nat) (r : dres) : Prop :=
  match r with Complete _ rest => n <= List.length rest | Incomplete _ => False end.

Lemma rest_ge_prepend n l r : rest_ge n (prepend l r) <-> rest_ge n r.
Proof. destruct r; cbn; tauto. Qed.

Lemma prepend_complete_inv2 l r b rest :
  prepend l r = Complete b rest -> exists b', r = Complete b' rest /\ b = l ++ b'.
Proof. destruct r; cbn; intros H; inversion H; subst. eexists; split; reflexivity. Qed.

Lemma prepend_incomplete_inv l r b :
  prepend l r = Incomplete b -> exists b', r = Incomplete b' /\ b = l ++ b'.
Proof. destruct r; cbn; intros H; inversion H; subst. eexists; split; reflexivity. Qed.

Lemma is_marker_some s r : is_marker s = Some r -> s = DOT :: CR :: LF :: r.
Proof.
  destruct s as [|a [|b [|c rest]]]; cbn; try discriminate.
  destruct (Ascii.eqb a DOT) eqn:Ea; cbn; [|discriminate].
  destruct (Ascii.eqb b CR) eqn:Eb; cbn; [|discriminate].
  destruct (Ascii.eqb c LF) eqn:Ec; cbn; [|discriminate].
  intros H; inversion H; subst. beq. reflexivity.
Qed.

Lemma is_marker_nodot c u : Ascii.eqb c DOT = false -> is_marker (c :: u) = None.
Proof. intros E. destruct u as [|x [|y u]]; cbn; try reflexivity. rewrite E. reflexivity. Qed.

Lemma is_marker_dot_nocr c u : Ascii.eqb c CR = false -> is_marker (DOT :: c :: u) = None.
Proof. intros E. destruct u as [|y u]; cbn; try reflexivity. rewrite E. reflexivity. Qed.

Lemma unstuff_marker x : unstuff (DOT :: CR :: LF :: x) = Complete [] x.
Proof. rewrite unstuff_unfold. reflexivity. Qed.

Lemma mid_nil : mid [] = Incomplete [].
Proof. reflexivity. Qed.
Lemma midCR_nil : midCR [] = Incomplete [].
Proof. reflexivity. Qed.
Lemma unstuff_nil : unstuff [] = Incomplete [].
Proof. reflexivity. Qed.

Lemma mid_crlf s : mid (CR :: LF :: s) = prepend [CR; LF] (unstuff s).
Proof.
  rewrite mid_cons, eqb_CR_CR. cbn [midCR]. rewrite eqb_LF_LF, prepend_app. reflexivity.
Qed.

(* --- a marker at a line start ends the data there or earlier --- *)

Lemma marker_ahead pre : forall x,
  rest_ge (List.length x) (mid (pre ++ CR :: LF :: DOT :: CR :: LF :: x)) /\
  rest_ge (List.length x) (midCR (pre ++ CR :: LF :: DOT :: CR :: LF :: x)) /\
  rest_ge (List.length x) (unstuff (pre ++ CR :: LF :: DOT :: CR :: LF :: x)).
Proof.
  induction pre as [|c p IH]; intros x.
  - cbn [app].
    assert (Hm : rest_ge (List.length x) (mid (CR :: LF :: DOT :: CR :: LF :: x))).
    { rewrite mid_crlf, unstuff_marker. cbn. lia. }
    split; [exact Hm|]. split.
    + cbn [midCR]. rewrite eqb_CR_LF. exact Hm.
    + rewrite unstuff_unfold. rewrite is_marker_nodot by reflexivity.
      cbn [strip_dot]. replace (Ascii.eqb CR DOT) with false by reflexivity. exact Hm.
  - destruct (IH x) as (Im & Ic & Iu). cbn [app].
    assert (Hm : rest_ge (List.length x) (mid (c :: p ++ CR :: LF :: DOT :: CR :: LF :: x))).
    { rewrite mid_cons. destruct (Ascii.eqb c CR); apply rest_ge_prepend; assumption. }
    split; [exact Hm|]. split.
    + cbn [midCR]. destruct (Ascii.eqb c LF); [apply rest_ge_prepend; exact Iu|exact Hm].
    + rewrite unstuff_unfold.
      destruct (is_marker (c :: p ++ CR :: LF :: DOT :: CR :: LF :: x)) as [r|] eqn:Em.
      * apply is_marker_some in Em. apply (f_equal (@List.length ascii)) in Em.
        cbn [List.length] in Em. rewrite app_length in Em. cbn [List.length] in Em. cbn. lia.
      * cbn [strip_dot]. destruct (Ascii.eqb c DOT); [exact Im|exact Hm].
Qed.

Lemma marker_completes pre x :
  ends_crlf pre -> rest_ge (List.length x) (unstuff (pre ++ end_marker ++ x)).
Proof.
  intros [->|(p & ->)]; unfold end_marker; cbn [app].
  - rewrite unstuff_marker. cbn. lia.
  - rewrite <- app_assoc. cbn [app]. apply marker_ahead.
Qed.

(* --- a Complete result stems from a marker at a line start --- *)

Lemma complete_marker_ex s : forall b r,
  (mid s = Complete b r -> exists pre, s = pre ++ CR :: LF :: DOT :: CR :: LF :: r) /\
  (midCR s = Complete b r ->
     (exists pre, s = pre ++ CR :: LF :: DOT :: CR :: LF :: r) \/ s = LF :: DOT :: CR :: LF :: r) /\
  (unstuff s = Complete b r -> exists pre, s = pre ++ DOT :: CR :: LF :: r /\ ends_crlf pre).
Proof.
  induction s as [|c t IH]; intros b r.
  - rewrite mid_nil, midCR_nil, unstuff_nil. repeat split; discriminate.
  - assert (Hm : forall b r, mid (c :: t) = Complete b r ->
                   exists pre, c :: t = pre ++ CR :: LF :: DOT :: CR :: LF :: r).
    { clear b r. intros b r H. rewrite mid_cons in H.
      destruct (Ascii.eqb c CR) eqn:Ec; apply prepend_complete_inv2 in H as (b' & H & _).
      - apply (IH b' r) in H. destruct H as [(pre & ->)| ->].
        + exists (c :: pre). reflexivity.
        + beq. exists []. reflexivity.
      - apply (IH b' r) in H. destruct H as (pre & ->). exists (c :: pre). reflexivity. }
    split; [apply Hm|]. split.
    + cbn [midCR]. destruct (Ascii.eqb c LF) eqn:El; intros H.
      * beq. apply prepend_complete_inv2 in H as (b' & H & _).
        apply (IH b' r) in H. destruct H as (pre & -> & [->|(p & ->)]).
        -- right. reflexivity.
        -- left. exists (LF :: p). rewrite <- app_assoc. reflexivity.
      * left. eapply Hm; eauto.
    + rewrite unstuff_unfold.
      destruct (is_marker (c :: t)) as [r0|] eqn:Em; intros H.
      * inversion H; subst. apply is_marker_some in Em. exists []. split; [exact Em|left; reflexivity].
      * cbn [strip_dot] in H. destruct (Ascii.eqb c DOT) eqn:Ed.
        -- beq. apply (IH b r) in H. destruct H as (pre & ->).
           exists ((DOT :: pre) ++ [CR; LF]). split; [rewrite <- app_assoc; reflexivity|].
           right. eexists; reflexivity.
        -- apply Hm in H. destruct H as (pre & ->).
           exists (pre ++ [CR; LF]). split; [rewrite <- app_assoc; reflexivity|].
           right. eexists; reflexivity.
Qed.

(* C02 (spec): the data ends at the FIRST ".CRLF" that stands at a line start *)
Theorem unstuff_marker_first s body rest :
  unstuff s = Complete body rest ->
  exists pre, s = pre ++ end_marker ++ rest /\ ends_crlf pre /\
    forall pre' x, s = pre' ++ end_marker ++ x -> ends_crlf pre' ->
                   List.length pre <= List.length pre'.
Proof.
  intros H. destruct (proj2 (proj2 (complete_marker_ex s body rest)) H) as (pre & Hs & Hp).
  exists pre. split; [exact Hs|]. split; [exact Hp|].
  intros pre' x Hs' Hp'.
  pose proof (marker_completes pre' x Hp') as Hge. rewrite <- Hs', H in Hge. cbn in Hge.
  apply (f_equal (@List.length ascii)) in Hs, Hs'.
  rewrite Hs in Hs'. rewrite !app_length in Hs'. cbn [List.length end_marker] in Hs'. lia.
Qed.

Theorem unstuff_complete_iff s :
  (exists body rest, unstuff s = Complete body rest) <->
  (exists pre x, s = pre ++ end_marker ++ x /\ ends_crlf pre).
Proof.
  split.
  - intros (body & rest & H). destruct (unstuff_marker_first _ _ _ H) as (pre & Hs & Hp & _). eauto.
  - intros (pre & x & -> & Hp). pose proof (marker_completes pre x Hp) as H.
    destruct (unstuff (pre ++ end_marker ++ x)); [eauto|contradiction].
Qed.

(* C02 (spec): no ".CRLF" at the very start and no "CRLF.CRLF" anywhere: the
   data never ends *)
Theorem unstuff_lookalikes s :
  (forall x, s <> end_marker ++ x) ->
  (forall p x, s <> p ++ [CR; LF] ++ end_marker ++ x) ->
  exists body, unstuff s = Incomplete body.
Proof.
  intros H1 H2. destruct (unstuff s) as [b r|b] eqn:E; [|eauto].
  destruct (unstuff_marker_first _ _ _ E) as (pre & Hs & [->|(p & ->)] & _).
  - exfalso. apply (H1 r). exact Hs.
  - exfalso. apply (H2 p r). rewrite Hs, <- app_assoc. reflexivity.
Qed.

(* --- Complete is stable under extension of the stream --- *)

Lemma mid_short s : List.length s < 2 -> mid s = Incomplete s.
Proof. destruct s as [|a [|b s]]; cbn [List.length]; intros H; try lia; reflexivity. Qed.

Lemma complete_app s : forall b r x,
  (mid s = Complete b r -> mid (s ++ x) = Complete b (r ++ x)) /\
  (midCR s = Complete b r -> midCR (s ++ x) = Complete b (r ++ x)) /\
  (unstuff s = Complete b r -> unstuff (s ++ x) = Complete b (r ++ x)).
Proof.
  induction s as [|c t IH]; intros b r x.
  - rewrite mid_nil, midCR_nil, unstuff_nil. repeat split; discriminate.
  - assert (Hm : forall b r, mid (c :: t) = Complete b r ->
                   mid ((c :: t) ++ x) = Complete b (r ++ x)).
    { clear b r. intros b r H. cbn [app]. rewrite mid_cons in H |- *.
      destruct (Ascii.eqb c CR) eqn:Ec; apply prepend_complete_inv2 in H as (b' & H & ->);
        apply (IH b' r x) in H; rewrite H; reflexivity. }
    split; [apply Hm|]. split.
    + cbn [midCR app]. destruct (Ascii.eqb c LF) eqn:El; intros H.
      * apply prepend_complete_inv2 in H as (b' & H & ->).
        apply (IH b' r x) in H. rewrite H. reflexivity.
      * apply Hm in H. exact H.
    + rewrite !unstuff_unfold.
      destruct (Ascii.eqb c DOT) eqn:Ed.
      * beq. destruct (is_marker (DOT :: t)) as [r0|] eqn:Em; intros H.
        -- inversion H; subst. apply is_marker_some in Em. inversion Em; subst. reflexivity.
        -- cbn [strip_dot] in H. rewrite eqb_DOT_DOT in H.
           destruct t as [|d [|e t']]; try (rewrite mid_short in H by (cbn; lia); discriminate).
           cbn [app]. cbn [is_marker] in Em |- *.
           destruct (Ascii.eqb DOT DOT && Ascii.eqb d CR && Ascii.eqb e LF); [discriminate|].
           cbn [strip_dot]. rewrite eqb_DOT_DOT.
           apply (IH b r x) in H. exact H.
      * cbn [app]. rewrite !is_marker_nodot by exact Ed. cbn [strip_dot]. rewrite Ed. apply Hm.
Qed.

Theorem unstuff_complete_app s body rest x :
  unstuff s = Complete body rest -> unstuff (s ++ x) = Complete body (rest ++ x).
Proof. apply complete_app. Qed.

(* the number of octets up to and including the end marker *)
Lemma unstuff_consumed s body rest :
  unstuff s = Complete body rest ->
  exists m, s = m ++ rest /\ unstuff m = Complete body [] /\
            exists pre, m = pre ++ end_marker /\ ends_crlf pre.
Proof.
  intros H. destruct (unstuff_marker_first _ _ _ H) as (pre & Hs & Hp & _).
  exists (pre ++ end_marker). split; [rewrite <- app_assoc; exact Hs|]. split; [|eauto].
  destruct (unstuff (pre ++ end_marker)) as [b r|b] eqn:E.
  - pose proof (unstuff_complete_app _ _ _ rest E) as E2.
    rewrite <- app_assoc, <- Hs, H in E2. inversion E2; subst.
    apply (f_equal (@List.length ascii)) in H2. rewrite app_length in H2.
    destruct r; [reflexivity|cbn in H2; lia].
  - exfalso. pose proof (marker_completes pre [] Hp) as G. rewrite app_nil_r, E in G. exact G.
Qed.

(* C07 (spec): every proper prefix of the stream up to and including its end
   marker is Incomplete - whatever the cut point, also inside the marker *)
Theorem unstuff_prefix_incomplete s body rest k :
  unstuff s = Complete body rest ->
  k < List.length s - List.length rest ->
  exists b, unstuff (firstn k s) = Incomplete b.
Proof.
  intros H Hk. destruct (unstuff (firstn k s)) as [b r|b] eqn:E; [|eauto].
  exfalso. apply (unstuff_complete_app _ _ _ (skipn k s)) in E.
  rewrite firstn_skipn, H in E. inversion E; subst.
  rewrite app_length, skipn_length in Hk. lia.
Qed.

Corollary unstuff_strict_prefix_incomplete p q body rest :
  unstuff (p ++ q ++ rest) = Complete body rest -> q <> [] ->
  exists b, unstuff p = Incomplete b.
Proof.
  intros H Hq.
  assert (Hk : List.length p < List.length (p ++ q ++ rest) - List.length rest).
  { rewrite !app_length. destruct q; [congruence|cbn; lia]. }
  destruct (unstuff_prefix_incomplete _ _ _ _ H Hk) as (b & Hb).
  rewrite firstn_app, firstn_all, Nat.sub_diag in Hb. cbn in Hb. rewrite app_nil_r in Hb. eauto.
Qed.

(* the cut point counted from the marker: the marker's last octet is octet
   number |pre| + 3 *)
Corollary unstuff_cut_incomplete pre rest body k :
  unstuff (pre ++ end_marker ++ rest) = Complete body rest ->
  k < List.length pre + 3 ->
  exists b, unstuff (firstn k (pre ++ end_marker ++ rest)) = Incomplete b.
Proof.
  intros H Hk. eapply unstuff_prefix_incomplete; eauto.
  rewrite !app_length. cbn. lia.
Qed.

(* --- the four look-alikes of the end marker --- *)

Definition plainb (a : bytes) : bool :=
  forallb (fun c => negb (Ascii.eqb c CR) && negb (Ascii.eqb c LF)) a.

Definition no_lead_dot (s : bytes) : Prop :=
  match s with c :: _ => Ascii.eqb c DOT = false | [] => True end.

Lemma plainb_app a b : plainb (a ++ b) = plainb a && plainb b.
Proof. apply forallb_app. Qed.

Definition nocrb (a : bytes) : bool := forallb (fun c => negb (Ascii.eqb c CR)) a.

Lemma plainb_nocrb a : plainb a = true -> nocrb a = true.
Proof.
  induction a as [|c a IH]; [reflexivity|]. cbn [plainb nocrb forallb]. intros H.
  apply andb_true_iff in H as [H1 H2]. apply andb_true_iff in H1 as [H1 _].
  rewrite H1. exact (IH H2).
Qed.

(* inside a line, octets other than CR are copied *)
Lemma mid_nocr_app a s : nocrb a = true -> mid (a ++ s) = prepend a (mid s).
Proof.
  induction a as [|c a IH]; intros H; cbn [app].
  - rewrite prepend_nil. reflexivity.
  - cbn [nocrb forallb] in H. apply andb_true_iff in H as [H1 H2].
    apply negb_true_iff in H1.
    rewrite mid_cons, H1, (IH H2), prepend_app. reflexivity.
Qed.

Lemma mid_plain_app a s : plainb a = true -> mid (a ++ s) = prepend a (mid s).
Proof. intros H. apply mid_nocr_app, plainb_nocrb, H. Qed.

(* a stream without any CR never ends the data *)
Theorem unstuff_nocr_incomplete s : nocrb s = true -> exists body, unstuff s = Incomplete body.
Proof.
  intros H. rewrite unstuff_unfold.
  destruct (is_marker s) as [r|] eqn:Em.
  - apply is_marker_some in Em. subst s. cbn in H. discriminate.
  - assert (Hs : nocrb (strip_dot s) = true).
    { destruct s as [|c s]; [reflexivity|]. cbn [strip_dot].
      destruct (Ascii.eqb c DOT); [|exact H]. cbn [nocrb forallb] in H.
      apply andb_true_iff in H as [_ H]. exact H. }
    rewrite <- (app_nil_r (strip_dot s)), mid_nocr_app by exact Hs. cbn. eauto.
Qed.

Lemma unstuff_nodot s : no_lead_dot s -> unstuff s = mid s.
Proof.
  destruct s as [|c s]; [reflexivity|]. cbn [no_lead_dot]. intros E.
  rewrite unstuff_unfold, is_marker_nodot by exact E. cbn [strip_dot]. rewrite E. reflexivity.
Qed.

Lemma no_lead_dot_app a s : no_lead_dot a -> no_lead_dot s -> no_lead_dot (a ++ s).
Proof. destruct a; cbn; auto. Qed.

Lemma midCR_nolf s :
  match s with c :: _ => Ascii.eqb c LF = false | [] => True end -> midCR s = mid s.
Proof. destruct s as [|c s]; [reflexivity|]. intros E. cbn [midCR]. rewrite E. reflexivity. Qed.

Lemma nocrb_app a b : nocrb (a ++ b) = nocrb a && nocrb b.
Proof. apply forallb_app. Qed.

(* a line without CR inside and without leading dot, ended by CRLF *)
Lemma unstuff_nocr_line P s :
  nocrb P = true -> no_lead_dot P ->
  unstuff (P ++ CR :: LF :: s) = prepend (P ++ [CR; LF]) (unstuff s).
Proof.
  intros Hp Hd. rewrite unstuff_nodot by (apply no_lead_dot_app; [exact Hd|reflexivity]).
  rewrite mid_nocr_app by exact Hp. rewrite mid_crlf, prepend_app. reflexivity.
Qed.

Lemma unstuff_plain_line P s :
  plainb P = true -> no_lead_dot P ->
  unstuff (P ++ CR :: LF :: s) = prepend (P ++ [CR; LF]) (unstuff s).
Proof. intros Hp. apply unstuff_nocr_line, plainb_nocrb, Hp. Qed.

Lemma plain_first_not_lf b s :
  plainb b = true ->
  match b ++ CR :: s with c :: _ => Ascii.eqb c LF = false | [] => True end.
Proof.
  destruct b as [|c b]; cbn [app]; [reflexivity|].
  cbn [plainb forallb]. intros H. apply andb_true_iff in H as [H _].
  apply andb_true_iff in H as [_ H]. apply negb_true_iff in H. exact H.
Qed.

(* LF.LF *)
Theorem lookalike_lf_dot_lf a b rest :
  plainb a = true -> plainb b = true -> no_lead_dot a ->
  unstuff (a ++ [LF; DOT; LF] ++ b ++ [CR; LF] ++ end_marker ++ rest)
  = Complete (a ++ [LF; DOT; LF] ++ b ++ [CR; LF]) rest.
Proof.
  intros Ha Hb Hd. cbn [app end_marker].
  rewrite unstuff_nodot by (apply no_lead_dot_app; [exact Hd|reflexivity]).
  rewrite mid_plain_app by exact Ha.
  change (LF :: DOT :: LF :: b ++ CR :: LF :: DOT :: CR :: LF :: rest)
    with ([LF; DOT; LF] ++ b ++ CR :: LF :: DOT :: CR :: LF :: rest).
  rewrite mid_nocr_app by reflexivity. rewrite mid_plain_app by exact Hb.
  rewrite mid_crlf, unstuff_marker. cbn [prepend]. rewrite !app_nil_r. reflexivity.
Qed.

(* LF.CRLF *)
Theorem lookalike_lf_dot_crlf a b rest :
  plainb a = true -> plainb b = true -> no_lead_dot a -> no_lead_dot b ->
  unstuff (a ++ [LF; DOT; CR; LF] ++ b ++ [CR; LF] ++ end_marker ++ rest)
  = Complete (a ++ [LF; DOT; CR; LF] ++ b ++ [CR; LF]) rest.
Proof.
  intros Ha Hb Hd Hdb. cbn [app end_marker].
  change (a ++ LF :: DOT :: CR :: LF :: b ++ CR :: LF :: DOT :: CR :: LF :: rest)
    with (a ++ [LF; DOT] ++ CR :: LF :: b ++ CR :: LF :: DOT :: CR :: LF :: rest).
  rewrite app_assoc.
  rewrite unstuff_nocr_line.
  - rewrite unstuff_plain_line by assumption. rewrite unstuff_marker. cbn [prepend].
    rewrite app_nil_r, <- !app_assoc. reflexivity.
  - rewrite nocrb_app, (plainb_nocrb _ Ha). reflexivity.
  - apply no_lead_dot_app; [exact Hd|reflexivity].
Qed.

(* CRLF.LF : the dot stands at a line start and is removed like any leading
   dot; the data goes on *)
Theorem lookalike_crlf_dot_lf a b rest :
  plainb a = true -> plainb b = true -> no_lead_dot a ->
  unstuff (a ++ [CR; LF; DOT; LF] ++ b ++ [CR; LF] ++ end_marker ++ rest)
  = Complete (a ++ [CR; LF; LF] ++ b ++ [CR; LF]) rest.
Proof.
  intros Ha Hb Hd. cbn [app end_marker].
  rewrite unstuff_plain_line by assumption.
  rewrite unstuff_unfold, is_marker_dot_nocr by reflexivity.
  cbn [strip_dot]. rewrite eqb_DOT_DOT.
  change (LF :: b ++ CR :: LF :: DOT :: CR :: LF :: rest)
    with ((LF :: b) ++ CR :: LF :: DOT :: CR :: LF :: rest).
  assert (Hlb : nocrb (LF :: b) = true).
  { change (nocrb (LF :: b)) with (negb (Ascii.eqb LF CR) && nocrb b).
    rewrite (plainb_nocrb _ Hb). reflexivity. }
  rewrite mid_nocr_app by exact Hlb.
  rewrite mid_crlf, unstuff_marker. cbn [prepend]. rewrite app_nil_r, <- !app_assoc. reflexivity.
Qed.

(* CR.CR *)
Theorem lookalike_cr_dot_cr a b rest :
  plainb a = true -> plainb b = true -> no_lead_dot a ->
  unstuff (a ++ [CR; DOT; CR] ++ b ++ [CR; LF] ++ end_marker ++ rest)
  = Complete (a ++ [CR; DOT; CR] ++ b ++ [CR; LF]) rest.
Proof.
  intros Ha Hb Hd. cbn [app end_marker].
  rewrite unstuff_nodot by (apply no_lead_dot_app; [exact Hd|reflexivity]).
  rewrite mid_plain_app by exact Ha.
  rewrite mid_cons, eqb_CR_CR. rewrite midCR_nolf by reflexivity.
  rewrite mid_cons. replace (Ascii.eqb DOT CR) with false by reflexivity.
  rewrite mid_cons, eqb_CR_CR.
  rewrite midCR_nolf by (apply plain_first_not_lf; exact Hb).
  rewrite mid_plain_app by exact Hb.
  rewrite mid_crlf, unstuff_marker. cbn [prepend]. rewrite !app_nil_r. reflexivity.
Qed.

(* ... and none of them, followed by anything free of CR and LF, ends the data *)
Corollary lookalikes_never_complete a b :
  plainb a = true -> plainb b = true -> no_lead_dot a -> no_lead_dot b ->
  (exists body, unstuff (a ++ [LF; DOT; LF] ++ b) = Incomplete body) /\
  (exists body, unstuff (a ++ [LF; DOT; CR; LF] ++ b) = Incomplete body) /\
  (exists body, unstuff (a ++ [CR; LF; DOT; LF] ++ b) = Incomplete body) /\
  (exists body, unstuff (a ++ [CR; DOT; CR] ++ b) = Incomplete body).
Proof.
  intros Ha Hb Hd Hdb.
  assert (Hq : [CR; LF] ++ end_marker <> []) by discriminate.
  repeat split.
  - eapply (unstuff_strict_prefix_incomplete _ ([CR; LF] ++ end_marker) _ []); [|exact Hq].
    pose proof (lookalike_lf_dot_lf a b [] Ha Hb Hd) as H.
    rewrite <- ?app_assoc. rewrite <- ?app_assoc in H. exact H.
  - eapply (unstuff_strict_prefix_incomplete _ ([CR; LF] ++ end_marker) _ []); [|exact Hq].
    pose proof (lookalike_lf_dot_crlf a b [] Ha Hb Hd Hdb) as H.
    rewrite <- ?app_assoc. rewrite <- ?app_assoc in H. exact H.
  - eapply (unstuff_strict_prefix_incomplete _ ([CR; LF] ++ end_marker) _ []); [|exact Hq].
    pose proof (lookalike_crlf_dot_lf a b [] Ha Hb Hd) as H.
    rewrite <- ?app_assoc. rewrite <- ?app_assoc in H. exact H.
  - eapply (unstuff_strict_prefix_incomplete _ ([CR; LF] ++ end_marker) _ []); [|exact Hq].
    pose proof (lookalike_cr_dot_cr a b [] Ha Hb Hd) as H.
    rewrite <- ?app_assoc. rewrite <- ?app_assoc in H. exact H.
Qed.

(* ====================================================================== *)
(* Part B: the reader model against the specification                     *)
(* ====================================================================== *)

(* --- where the transport stands in the raw schedule --- *)

Lemma read_byte_after t c t' :
  t_read_byte t = (inl c, t') -> raws_after (t_raw t') = raws_after (t_raw t).
Proof.
  unfold t_read_byte. destruct (t_buf t) as [|x b].
  - destruct (raw_read t) as [[[|c0 d]|e] t1] eqn:Er; intros H; inversion H; subst.
    unfold raw_read in Er.
    destruct (too_long t); [discriminate|]. destruct (t_closed t); [discriminate|].
    destruct (t_raw t) as [|[c1 d1|e1] r] eqn:Eraw; try discriminate.
    destruct (t_limit t =? 0)%N.
    + inversion Er; subst. reflexivity.
    + destruct (lim_scan (t_limit t) (t_cur t) (c1 :: d1)) as [tr cur'].
      destruct tr; [discriminate|]. inversion Er; subst. reflexivity.
  - intros H; inversion H; subst. reflexivity.
Qed.

Lemma read_byte_fail_after t e t' :
  transparent t -> tstream t = [] -> t_read_byte t = (inr e, t') ->
  t_buf t' = [] /\ t_raw t' = raws_after (t_raw t) /\
  t_closed t' = false /\ too_long t' = false.
Proof.
  intros (Hcl & Htl & _) Hs H. unfold tstream in Hs. apply app_eq_nil in Hs as [Hb Hr].
  unfold t_read_byte in H. rewrite Hb in H. unfold raw_read in H. rewrite Htl, Hcl in H.
  destruct (t_raw t) as [|[c d|e1] r] eqn:Eraw; cbn in Hr; try discriminate.
  - inversion H; subst. rewrite Eraw. auto.
  - inversion H; subst. cbn. auto.
Qed.

Lemma dr_loop_pos fuel :
  forall q t room o e q' t',
    transparent t -> room + List.length (tstream t) < fuel ->
    dr_loop fuel q t room = (o, e, q', t') ->
    match e with
    | None => raws_after (t_raw t') = raws_after (t_raw t)
    | Some _ => (t_buf t' = [] /\ t_raw t' = raws_after (t_raw t) /\
                 t_closed t' = false /\ too_long t' = false) /\ List.length o < room
    end.
Proof.
  induction fuel as [|fuel IH]; intros q t room o e q' t' Htr Hf H; [lia|].
  cbn [dr_loop] in H.
  destruct room as [|room]. { inversion H; subst. reflexivity. }
  destruct (dstate_eqb q SEOF). { inversion H; subst. reflexivity. }
  destruct (tstream t) as [|c s] eqn:Es.
  - destruct (read_byte_nil t Htr Es) as (t1 & Hrb & _). rewrite Hrb in H. inversion H; subst.
    pose proof (read_byte_fail_after _ _ _ Htr Es Hrb) as A. cbn [List.length].
    split; [exact A|lia].
  - destruct (read_byte_cons t c s Htr Es) as (t1 & Hrb & Hs1 & Htr1 & _ & _). rewrite Hrb in H.
    pose proof (read_byte_after _ _ _ Hrb) as Ha.
    cbn [List.length] in Hf.
    destruct (dr_step q c) as [q1|q1 x|q1 x].
    + assert (Hf1 : S room + List.length (tstream t1) < fuel) by (rewrite Hs1; lia).
      specialize (IH _ _ _ _ _ _ _ Htr1 Hf1 H).
      destruct e as [err|].
      * destruct IH as ((A & B & C) & D). split; [|exact D]. split; [exact A|]. split; [congruence|exact C].
      * congruence.
    + destruct (dr_loop fuel q1 t1 room) as [[[o1 e1] q2] t2] eqn:Hrec.
      inversion H; subst o e q' t'; clear H.
      assert (Hf1 : room + List.length (tstream t1) < fuel) by (rewrite Hs1; lia).
      specialize (IH _ _ _ _ _ _ _ Htr1 Hf1 Hrec).
      destruct e1 as [err|].
      * destruct IH as ((A & B & C) & D). split; [|cbn [List.length]; lia].
        split; [exact A|]. split; [congruence|exact C].
      * congruence.
    + destruct (dr_loop fuel q1 (t_unread_byte c t1) room) as [[[o1 e1] q2] t2] eqn:Hrec.
      inversion H; subst o e q' t'; clear H.
      pose proof (unread_transparent c t1 Htr1) as Htr2.
      assert (Hf2 : room + List.length (tstream (t_unread_byte c t1)) < fuel).
      { rewrite unread_stream, Hs1. cbn [List.length]. lia. }
      specialize (IH _ _ _ _ _ _ _ Htr2 Hf2 Hrec).
      change (t_raw (t_unread_byte c t1)) with (t_raw t1) in IH.
      destruct e1 as [err|].
      * destruct IH as ((A & B & C) & D). split; [|cbn [List.length]; lia].
        split; [exact A|]. split; [congruence|exact C].
      * congruence.
Qed.

(* the reader advanced from (q, t) to (q', t') and emitted o: what the
   specification owed before = o followed by what it owes now *)
Definition adv (q : dstate) (t : transport) (o : bytes) (q' : dstate) (t' : transport) : Prop :=
  spec_of q (tstream t) = prepend o (spec_of q' (tstream t')) /\
  transparent t' /\ tterm t' = tterm t /\ t_limit t' = t_limit t /\
  raws_after (t_raw t') = raws_after (t_raw t).

(* the reader emitted o and then ran into the end of the schedule's octets:
   the stream held no complete message, and all of it has been consumed *)
Definition failed (q : dstate) (t : transport) (o : bytes) (q' : dstate) (t' : transport) : Prop :=
  q' <> SEOF /\
  spec_of q (tstream t) = prepend o (Incomplete (pending q')) /\
  t_limit t' = t_limit t /\ t_buf t' = [] /\ t_raw t' = raws_after (t_raw t) /\
  t_closed t' = false /\ too_long t' = false.

Lemma adv_refl q t : transparent t -> adv q t [] q t.
Proof. intros H. unfold adv. rewrite prepend_nil. auto. Qed.

Lemma adv_trans q t o1 q1 t1 o2 q2 t2 :
  adv q t o1 q1 t1 -> adv q1 t1 o2 q2 t2 -> adv q t (o1 ++ o2) q2 t2.
Proof.
  intros (A & B & C & D & E) (A' & B' & C' & D' & E'). unfold adv.
  rewrite A, A', prepend_app.
  split; [reflexivity|]. split; [exact B'|]. split; [congruence|]. split; congruence.
Qed.

Lemma adv_failed q t o1 q1 t1 o2 q2 t2 :
  adv q t o1 q1 t1 -> failed q1 t1 o2 q2 t2 -> failed q t (o1 ++ o2) q2 t2.
Proof.
  intros (A & B & C & D & E) (A' & B' & C' & D' & E'). unfold failed.
  rewrite A, B', prepend_app.
  split; [exact A'|]. split; [reflexivity|]. split; [congruence|]. split; congruence.
Qed.

Lemma dr_loop_spec2 fuel q t room o e q' t' :
  transparent t -> room + List.length (tstream t) < fuel ->
  dr_loop fuel q t room = (o, e, q', t') ->
  match e with
  | None =>
      adv q t o q' t' /\ (List.length o = room \/ q' = SEOF) /\ List.length o <= room /\
      phi q' t' + List.length o <= phi q t
  | Some err =>
      err = rerr_of_terr (tterm t) /\ failed q t o q' t' /\ List.length o < room
  end.
Proof.
  intros Htr Hf H.
  pose proof (dr_loop_spec _ _ _ _ _ _ _ _ Htr Hf H) as S1.
  pose proof (dr_loop_pos _ _ _ _ _ _ _ _ Htr Hf H) as S2.
  destruct e as [err|].
  - destruct S1 as (A & B & C & D & E). destruct S2 as ((F & G & I & J) & K).
    unfold failed. auto 12.
  - destruct S1 as (A & B & C & L & D & E & F). unfold adv. auto 10.
Qed.

(* --- one Read call --- *)

Definition budget_after (d : dreader) (o : bytes) (d' : dreader) : Prop :=
  d_limited d' = d_limited d /\
  d_n d' = (if d_limited d then d_n d - Z.of_nat (List.length o) else d_n d)%Z.

Inductive read_outcome2 (d : dreader) (t : transport) (o : bytes) (d' : dreader) (t' : transport)
  : option rerr -> Prop :=
| RO2_more :
    adv (d_state d) t o (d_state d') t' -> d_state d' <> SEOF -> 1 <= List.length o ->
    phi (d_state d') t' + List.length o <= phi (d_state d) t ->
    budget_after d o d' -> (d_limited d = true -> (0 <= d_n d')%Z) ->
    read_outcome2 d t o d' t' None
| RO2_eof :
    adv (d_state d) t o (d_state d') t' -> d_state d' = SEOF ->
    budget_after d o d' -> (d_limited d = true -> (0 <= d_n d')%Z) ->
    read_outcome2 d t o d' t' (Some REOF)
| RO2_large x :
    d_limited d = true -> d_limited d' = true -> o = [] -> d_n d = 0%Z -> d_n d' = (-1)%Z ->
    adv (d_state d) t [x] (d_state d') t' ->
    read_outcome2 d t o d' t' (Some RTooLarge)
| RO2_fail :
    failed (d_state d) t o (d_state d') t' ->
    budget_after d o d' -> (d_limited d = true -> (0 <= d_n d')%Z) ->
    read_outcome2 d t o d' t' (Some (rerr_of_terr (tterm t))).

Lemma dr_read_spec2 d t lenb o e d' t' :
  transparent t -> 0 < lenb -> budget_ok d ->
  dr_read d t lenb = (o, e, d', t') ->
  read_outcome2 d t o d' t' e.
Proof.
  intros Htr Hl Hb H. unfold dr_read in H. unfold budget_ok in Hb.
  pose proof (tstream_avail t) as Hav.
  destruct (d_limited d) eqn:Elim.
  - specialize (Hb eq_refl).
    destruct (d_n d =? 0)%Z eqn:En0.
    + (* probe *)
      apply Z.eqb_eq in En0.
      destruct (dr_loop (dr_fuel t 1) (d_state d) t 1) as [[[o1 e1] q1] t1] eqn:Hloop.
      assert (Hf : 1 + List.length (tstream t) < dr_fuel t 1) by (unfold dr_fuel; lia).
      pose proof (dr_loop_spec2 _ _ _ _ _ _ _ _ Htr Hf Hloop) as Hs.
      destruct o1 as [|x o1].
      * inversion H; subst o e d' t'; clear H.
        assert (Hba : budget_after d [] (mkDR q1 true 0%Z)).
        { unfold budget_after. rewrite Elim. cbn. split; [reflexivity|lia]. }
        destruct e1 as [err|].
        -- destruct Hs as (A & B & C). subst err. cbn [eof_fix].
           apply RO2_fail; cbn [d_state d_n]; auto; intros _; lia.
        -- destruct Hs as (A & D & E & F). cbn [eof_fix].
           destruct D as [D|D]; [cbn in D; discriminate|]. subst q1. cbn [dstate_eqb].
           apply RO2_eof; cbn [d_state d_n]; auto; intros _; lia.
      * inversion H; subst o e d' t'; clear H.
        destruct e1 as [err|].
        -- destruct Hs as (A & B & C). cbn [List.length] in C. lia.
        -- destruct Hs as (A & D & E & F). cbn [List.length] in E.
           assert (o1 = []) by (destruct o1; [reflexivity|cbn in E; lia]). subst o1.
           eapply RO2_large; cbn [d_state d_n d_limited]; eauto.
    + apply Z.eqb_neq in En0.
      destruct (d_n d <? 0)%Z eqn:Eneg; [apply Z.ltb_lt in Eneg; lia|]. clear Eneg.
      set (room := if (d_n d <? Z.of_nat lenb)%Z then Z.to_nat (d_n d) else lenb) in H.
      assert (Hroom : 1 <= room /\ (Z.of_nat room <= d_n d)%Z).
      { unfold room. destruct (d_n d <? Z.of_nat lenb)%Z eqn:E.
        - apply Z.ltb_lt in E. lia.
        - apply Z.ltb_ge in E. lia. }
      destruct (dr_loop (dr_fuel t room) (d_state d) t room) as [[[o1 e1] q1] t1] eqn:Hloop.
      assert (Hf : room + List.length (tstream t) < dr_fuel t room) by (unfold dr_fuel; lia).
      pose proof (dr_loop_spec2 _ _ _ _ _ _ _ _ Htr Hf Hloop) as Hs.
      inversion H; subst o e d' t'; clear H.
      assert (Hba : budget_after d o1 (mkDR q1 true (d_n d - Z.of_nat (List.length o1))%Z)).
      { unfold budget_after. rewrite Elim. cbn. split; reflexivity. }
      destruct e1 as [err|].
      * destruct Hs as (A & B & C). subst err. cbn [eof_fix].
        apply RO2_fail; cbn [d_state d_n]; auto; intros _; lia.
      * destruct Hs as (A & D & E & F). cbn [eof_fix].
        destruct (dstate_eqb q1 SEOF) eqn:Eq.
        -- apply dstate_eqb_spec in Eq. subst q1.
           apply RO2_eof; cbn [d_state d_n]; auto; intros _; lia.
        -- assert (Hq1 : q1 <> SEOF) by (intros ->; discriminate).
           destruct D as [D|D]; [|contradiction].
           apply RO2_more; cbn [d_state d_n]; auto; try lia; intros _; lia.
  - destruct (dr_loop (dr_fuel t lenb) (d_state d) t lenb) as [[[o1 e1] q1] t1] eqn:Hloop.
    assert (Hf : lenb + List.length (tstream t) < dr_fuel t lenb) by (unfold dr_fuel; lia).
    pose proof (dr_loop_spec2 _ _ _ _ _ _ _ _ Htr Hf Hloop) as Hs.
    inversion H; subst o e d' t'; clear H.
    assert (Hba : budget_after d o1 (mkDR q1 false (d_n d))).
    { unfold budget_after. rewrite Elim. cbn. split; reflexivity. }
    destruct e1 as [err|].
    + destruct Hs as (A & B & C). subst err. cbn [eof_fix].
      apply RO2_fail; cbn [d_state d_n]; auto; intros; congruence.
    + destruct Hs as (A & D & E & F). cbn [eof_fix].
      destruct (dstate_eqb q1 SEOF) eqn:Eq.
      * apply dstate_eqb_spec in Eq. subst q1.
        apply RO2_eof; cbn [d_state d_n]; auto; intros; congruence.
      * assert (Hq1 : q1 <> SEOF) by (intros ->; discriminate).
        destruct D as [D|D]; [|contradiction].
        apply RO2_more; cbn [d_state d_n]; auto; try lia; intros; congruence.
Qed.

(* --- a backend reading with ANY stopping point --- *)

(* [got]: octets the backend already holds (they count for its stopping
   rule); [o]: octets it obtains from here on *)
Inductive reads_outcome2 (stop : option N) (got : bytes)
    (d : dreader) (t : transport) (o : bytes) (d' : dreader) (t' : transport)
  : option rerr -> Prop :=
| RS2_stop k :   (* the backend stopped by itself; the reader is mid-message *)
    stop = Some k -> (k <= blen (got ++ o))%N ->
    adv (d_state d) t o (d_state d') t' ->
    budget_after d o d' -> (d_limited d = true -> (0 <= d_n d')%Z) ->
    reads_outcome2 stop got d t o d' t' None
| RS2_eof :      (* io.EOF: the end marker has been consumed *)
    adv (d_state d) t o (d_state d') t' -> d_state d' = SEOF ->
    budget_after d o d' -> (d_limited d = true -> (0 <= d_n d')%Z) ->
    reads_outcome2 stop got d t o d' t' (Some REOF)
| RS2_large x :  (* ErrDataTooLarge: the whole budget handed over, then the
                    probe met one more message octet x (which is dropped) *)
    d_limited d = true -> d_limited d' = true ->
    Z.of_nat (List.length o) = d_n d -> d_n d' = (-1)%Z ->
    adv (d_state d) t (o ++ [x]) (d_state d') t' ->
    reads_outcome2 stop got d t o d' t' (Some RTooLarge)
| RS2_fail :     (* the schedule's failure, before any end marker *)
    failed (d_state d) t o (d_state d') t' ->
    budget_after d o d' -> (d_limited d = true -> (0 <= d_n d')%Z) ->
    reads_outcome2 stop got d t o d' t' (Some (rerr_of_terr (tterm t))).

Lemma budget_after_nil d : budget_after d [] d.
Proof. unfold budget_after. split; [reflexivity|]. destruct (d_limited d); cbn; lia. Qed.

Lemma budget_after_trans d o1 d1 o2 d2 :
  budget_after d o1 d1 -> budget_after d1 o2 d2 -> budget_after d (o1 ++ o2) d2.
Proof.
  intros [A B] [A' B']. unfold budget_after. split; [congruence|].
  rewrite B', A, B. destruct (d_limited d); [|reflexivity]. rewrite app_length. lia.
Qed.

Lemma be_read_spec2 fuel :
  forall sizes cur stop got d t out e d' t',
    transparent t -> budget_ok d -> phi (d_state d) t + 1 < fuel ->
    be_read fuel sizes cur stop got d t = (out, e, d', t') ->
    exists o, out = got ++ o /\ reads_outcome2 stop got d t o d' t' e.
Proof.
  induction fuel as [|fuel IH]; intros sizes cur stop got d t out e d' t' Htr Hb Hf H; [lia|].
  cbn [be_read] in H.
  destruct (match stop with Some k => (k <=? blen got)%N | None => false end) eqn:Estop.
  { inversion H; subst out e d' t'; clear H. exists []. split; [rewrite app_nil_r; reflexivity|].
    destruct stop as [k|]; [|discriminate]. apply N.leb_le in Estop.
    eapply RS2_stop; [reflexivity|rewrite app_nil_r; exact Estop|apply adv_refl; exact Htr
                      |apply budget_after_nil|exact Hb]. }
  destruct (next_size sizes cur) as [sz cur'].
  destruct (dr_read d t (pos_size sz)) as [[[o1 e1] d1] t1] eqn:Hrd.
  pose proof (dr_read_spec2 _ _ _ _ _ _ _ Htr (pos_size_pos sz) Hb Hrd) as Hro.
  destruct e1 as [err|].
  - inversion H; subst out e d' t'; clear H.
    exists o1. split; [reflexivity|].
    inversion Hro; subst.
    + apply RS2_eof; assumption.
    + eapply RS2_large; eauto.
    + apply RS2_fail; assumption.
  - inversion Hro as [A B C D E F| | |]; subst.
    assert (Hb1 : budget_ok d1).
    { unfold budget_ok. destruct E as [E1 E2]. rewrite E1. exact F. }
    assert (Hf1 : phi (d_state d1) t1 + 1 < fuel) by lia.
    destruct A as (A1 & A2 & A3 & A4 & A5).
    destruct (IH sizes cur' stop (got ++ o1) d1 t1 out e d' t' A2 Hb1 Hf1 H) as (o2 & Ho & Hrs).
    assert (A : adv (d_state d) t o1 (d_state d1) t1) by (unfold adv; auto).
    exists (o1 ++ o2). split; [rewrite Ho, app_assoc; reflexivity|].
    assert (Hlim : d_limited d1 = d_limited d) by apply E.
    inversion Hrs; subst.
    + eapply RS2_stop; [reflexivity|rewrite app_assoc; assumption
                        |eapply adv_trans; eauto|eapply budget_after_trans; eauto|].
      intros Hl. rewrite <- Hlim in Hl. auto.
    + apply RS2_eof; [eapply adv_trans; eauto|assumption|eapply budget_after_trans; eauto|].
      intros Hl. rewrite <- Hlim in Hl. auto.
    + eapply RS2_large; [congruence|assumption| |assumption|].
      * rewrite app_length. destruct E as [_ E2]. rewrite <- Hlim, H0 in E2. lia.
      * rewrite <- app_assoc. eapply adv_trans; eauto.
    + rewrite A3. apply RS2_fail; [eapply adv_failed; eauto|eapply budget_after_trans; eauto|].
      intros Hl. rewrite <- Hlim in Hl. auto.
Qed.

Lemma reads_outcome2_cases stop got d t o d' t' e :
  reads_outcome2 stop got d t o d' t' e ->
  (exists o', adv (d_state d) t o' (d_state d') t' /\
              (e = None \/ e = Some REOF \/ e = Some RTooLarge)) \/
  (failed (d_state d) t o (d_state d') t' /\ e = Some (rerr_of_terr (tterm t))).
Proof.
  intros H; inversion H; subst.
  - left; eauto.
  - left; eauto.
  - left; eauto 6.
  - right; auto.
Qed.

Lemma reads_outcome2_spec stop got d t o d' t' e :
  reads_outcome2 stop got d t o d' t' e ->
  exists r, spec_of (d_state d) (tstream t) = prepend o r.
Proof.
  intros H; inversion H; subst.
  - destruct H2 as (A & _). eauto.
  - destruct H0 as (A & _). eauto.
  - destruct H4 as (A & _). rewrite <- prepend_app in A. eauto.
  - destruct H0 as (_ & A & _). eauto.
Qed.

Lemma reads_outcome2_limit stop got d t o d' t' e :
  reads_outcome2 stop got d t o d' t' e -> t_limit t' = t_limit t.
Proof.
  intros H. apply reads_outcome2_cases in H.
  destruct H as [(o' & (_ & _ & _ & A & _) & _)|[(_ & _ & A & _) _]]; exact A.
Qed.

(* the octets obtained never exceed the budget *)
Lemma reads_outcome2_budget stop got d t o d' t' e :
  reads_outcome2 stop got d t o d' t' e ->
  d_limited d = true -> (Z.of_nat (List.length o) <= d_n d)%Z.
Proof.
  intros H Hl; inversion H; subst;
    try match goal with
    | Hb : budget_after _ _ _, Hp : _ -> (0 <= d_n _)%Z |- _ =>
        destruct Hb as [_ Hb]; rewrite Hl in Hb; specialize (Hp Hl); lia
    end.
  lia.
Qed.

Lemma new_data_reader_limited mx :
  d_limited (new_data_reader mx) = true ->
  (0 < mx)%Z /\ d_n (new_data_reader mx) = mx.
Proof.
  unfold new_data_reader. destruct (0 <? mx)%Z eqn:E; cbn; intros H; [|discriminate].
  apply Z.ltb_lt in E. auto.
Qed.

Lemma new_data_reader_pos mx : (0 < mx)%Z -> new_data_reader mx = mkDR SBeginLine true mx.
Proof. intros H. unfold new_data_reader. apply Z.ltb_lt in H. rewrite H. reflexivity. Qed.

Lemma new_data_reader_state mx : d_state (new_data_reader mx) = SBeginLine.
Proof. unfold new_data_reader. destruct (0 <? mx)%Z; reflexivity. Qed.

(* 1. everything the backend can observe, for every size limit, schedule,
   read sizes and stopping point *)
Theorem backend_reads_spec (mx : Z) (sizes : list nat) (stop : option N) (t : transport) :
  transparent t ->
  let '(out, e, d', t') := backend_reads sizes stop (new_data_reader mx) t in
  reads_outcome2 stop [] (new_data_reader mx) t out d' t' e.
Proof.
  intros Htr. unfold backend_reads.
  destruct (be_read (be_fuel t) sizes [] stop [] (new_data_reader mx) t) as [[[out e] d'] t'] eqn:H.
  destruct (be_read_spec2 _ _ _ _ _ _ _ _ _ _ _ Htr (budget_ok_new mx) (phi_fuel _ t) H)
    as (o & Ho & Hrs).
  cbn in Ho. subst out. exact Hrs.
Qed.

Definition dres_body (r : dres) : bytes :=
  match r with Complete b _ => b | Incomplete b => b end.

Lemma dres_body_prepend o r : dres_body (prepend o r) = o ++ dres_body r.
Proof. destruct r; reflexivity. Qed.

(* ... in particular: what the backend holds is always a prefix of the
   specified body, within the size limit; a stop by itself happens only when
   asked for; the line limit of the transport is untouched *)
Theorem backend_reads_prefix (mx : Z) (sizes : list nat) (stop : option N) (t : transport) :
  transparent t ->
  let '(out, e, d', t') := backend_reads sizes stop (new_data_reader mx) t in
  (exists w, dres_body (unstuff (tstream t)) = out ++ w) /\
  ((0 < mx)%Z -> (Z.of_nat (List.length out) <= mx)%Z) /\
  (e = None -> exists k, stop = Some k /\ (k <= blen out)%N) /\
  t_limit t' = t_limit t.
Proof.
  intros Htr. pose proof (backend_reads_spec mx sizes stop t Htr) as H.
  destruct (backend_reads sizes stop (new_data_reader mx) t) as [[[out e] d'] t'].
  pose proof (reads_outcome2_budget _ _ _ _ _ _ _ _ H) as Hbud.
  split; [|split; [|split]].
  - change (unstuff (tstream t)) with (spec_of SBeginLine (tstream t)).
    rewrite <- (new_data_reader_state mx).
    destruct (reads_outcome2_spec _ _ _ _ _ _ _ _ H) as (r & A).
    rewrite A, dres_body_prepend. eauto.
  - intros Hmx. rewrite (new_data_reader_pos mx Hmx) in Hbud. apply Hbud. reflexivity.
  - intros ->. inversion H; subst. eauto.
  - eapply reads_outcome2_limit; eauto.
Qed.

(* --- the post-delivery drain: r.limited = false; io.Copy(Discard, r) --- *)

(* from ANY reader state (mid-line, budget exhausted d_n = 0, after
   ErrDataTooLarge d_n = -1, already at EOF, ...) *)
Theorem dr_drain_spec (d : dreader) (t : transport) :
  transparent t ->
  let '(de, d2, t2) := dr_drain d t in
  d_limited d2 = false /\ d_n d2 = d_n d /\ t_limit t2 = t_limit t /\
  match spec_of (d_state d) (tstream t) with
  | Complete _ rest =>
      de = Some REOF /\ d_state d2 = SEOF /\ tstream t2 = rest /\ transparent t2 /\
      tterm t2 = tterm t /\ raws_after (t_raw t2) = raws_after (t_raw t)
  | Incomplete _ =>
      de = Some (rerr_of_terr (tterm t)) /\ d_state d2 <> SEOF /\
      t_buf t2 = [] /\ t_raw t2 = raws_after (t_raw t) /\
      t_closed t2 = false /\ too_long t2 = false
  end.
Proof.
  intros Htr. unfold dr_drain.
  set (d0 := mkDR (d_state d) false (d_n d)).
  destruct (be_read (be_fuel t) [4096] [] None [] d0 t) as [[[out e] d'] t'] eqn:H.
  assert (Hb0 : budget_ok d0) by (unfold budget_ok; cbn; discriminate).
  destruct (be_read_spec2 _ _ _ _ _ _ _ _ _ _ _ Htr Hb0 (phi_fuel _ t) H) as (o & _ & Hrs).
  change (d_state d) with (d_state d0).
  inversion Hrs; subst.
  - discriminate.
  - destruct H0 as (A & B & C & D & E). destruct H2 as [F G]. cbn in F, G.
    split; [exact F|]. split; [exact G|]. split; [exact D|].
    rewrite A, H1. cbn [spec_of prepend]. auto 10.
  - cbn in H0. discriminate.
  - destruct H0 as (A & B & C & D & E & E2 & E3). destruct H1 as [F G]. cbn in F, G.
    split; [exact F|]. split; [exact G|]. split; [exact C|].
    rewrite B. cbn [prepend]. auto 10.
Qed.

(* 2. C02, reader level: whatever the backend did - read all, part or
   nothing, with or without a size limit, message within or over the limit -
   after the drain the transport stands exactly behind the end marker *)
Theorem drain_resume_gen (sizes : list nat) (stop : option N) (d : dreader) (t : transport) body rest :
  transparent t -> budget_ok d ->
  spec_of (d_state d) (tstream t) = Complete body rest ->
  let '(out, e, d1, t1) := backend_reads sizes stop d t in
  let '(de, d2, t2) := dr_drain d1 t1 in
  tstream t2 = rest /\ transparent t2 /\ tterm t2 = tterm t /\ t_limit t2 = t_limit t /\
  raws_after (t_raw t2) = raws_after (t_raw t) /\
  de = Some REOF /\ d_state d2 = SEOF /\
  (e = None \/ e = Some REOF \/ e = Some RTooLarge).
Proof.
  intros Htr Hb Hc. unfold backend_reads.
  destruct (be_read (be_fuel t) sizes [] stop [] d t) as [[[out e] d1] t1] eqn:H.
  destruct (be_read_spec2 _ _ _ _ _ _ _ _ _ _ _ Htr Hb (phi_fuel _ t) H) as (o & _ & Hrs).
  apply reads_outcome2_cases in Hrs.
  destruct Hrs as [(o' & (A & B & C & D & E) & He)|[(_ & A & _) _]].
  - pose proof (dr_drain_spec d1 t1 B) as Hd.
    destruct (dr_drain d1 t1) as [[de d2] t2].
    rewrite Hc in A. symmetry in A. apply prepend_complete_inv2 in A as (b' & A & _).
    rewrite A in Hd. destruct Hd as (_ & _ & L & H1 & H2 & H3 & H4 & H5 & H6).
    split; [exact H3|]. split; [exact H4|]. split; [congruence|]. split; [congruence|].
    split; [congruence|]. auto.
  - rewrite Hc in A. cbn in A. discriminate.
Qed.

Theorem drain_resume (mx : Z) (sizes : list nat) (stop : option N) (t : transport) body rest :
  transparent t ->
  unstuff (tstream t) = Complete body rest ->
  let '(out, e, d1, t1) := backend_reads sizes stop (new_data_reader mx) t in
  let '(de, d2, t2) := dr_drain d1 t1 in
  tstream t2 = rest /\ transparent t2 /\ tterm t2 = tterm t /\ t_limit t2 = t_limit t /\
  raws_after (t_raw t2) = raws_after (t_raw t) /\
  de = Some REOF /\ d_state d2 = SEOF /\
  (e = None \/ e = Some REOF \/ e = Some RTooLarge).
Proof.
  intros Htr Hc. apply (drain_resume_gen sizes stop (new_data_reader mx) t body rest); [exact Htr|apply budget_ok_new|].
  rewrite new_data_reader_state. exact Hc.
Qed.

(* the stream is cut before its end marker: the first failing Read - the
   backend's, or else the drain's - reports the schedule's failure (never
   EOF), and by then every octet of the stream has been consumed *)
Theorem drain_incomplete (mx : Z) (sizes : list nat) (stop : option N) (t : transport) body :
  transparent t ->
  unstuff (tstream t) = Incomplete body ->
  let '(out, e, d1, t1) := backend_reads sizes stop (new_data_reader mx) t in
  let '(de, d2, t2) := dr_drain d1 t1 in
  t_limit t1 = t_limit t /\
  ((e = Some (rerr_of_terr (tterm t)) /\ d_state d1 <> SEOF /\
    t_buf t1 = [] /\ t_raw t1 = raws_after (t_raw t) /\
    t_closed t1 = false /\ too_long t1 = false)
   \/
   ((e = None \/ e = Some RTooLarge) /\
    de = Some (rerr_of_terr (tterm t)) /\ d_state d2 <> SEOF /\
    t_buf t2 = [] /\ t_raw t2 = raws_after (t_raw t) /\ t_limit t2 = t_limit t)).
Proof.
  intros Htr Hc. pose proof (backend_reads_spec mx sizes stop t Htr) as Hrs.
  destruct (backend_reads sizes stop (new_data_reader mx) t) as [[[out e] d1] t1].
  change (unstuff (tstream t)) with (spec_of SBeginLine (tstream t)) in Hc.
  rewrite <- (new_data_reader_state mx) in Hc.
  assert (Hne : e <> Some REOF).
  { intros ->. inversion Hrs; subst.
    - destruct H as (A & _). rewrite Hc, H0 in A. discriminate.
    - match goal with X : rerr_of_terr _ = _ |- _ =>
        apply rerr_of_terr_not_eof in X; contradiction end. }
  apply reads_outcome2_cases in Hrs.
  destruct Hrs as [(o' & (A & B & C & D & E) & He)|[(F & A & G & I & J & K & L) He]].
  - pose proof (dr_drain_spec d1 t1 B) as Hd.
    destruct (dr_drain d1 t1) as [[de d2] t2].
    rewrite Hc in A. symmetry in A. apply prepend_incomplete_inv in A as (b' & A & _).
    rewrite A in Hd. destruct Hd as (_ & _ & L & H1 & H2 & H3 & H4 & _).
    split; [exact D|]. right.
    split; [destruct He as [He|[He|He]]; [auto|contradiction|auto]|].
    split; [congruence|]. split; [exact H2|]. split; [exact H3|]. split; congruence.
  - destruct (dr_drain d1 t1) as [[de d2] t2]. split; [exact G|]. left. auto 10.
Qed.

(* when nothing follows the failure in the schedule (the connection is gone),
   the drain cannot report EOF either *)
Corollary drain_incomplete_never_eof (mx : Z) (sizes : list nat) (stop : option N) (t : transport) body :
  transparent t ->
  unstuff (tstream t) = Incomplete body ->
  raws_after (t_raw t) = [] ->
  let '(out, e, d1, t1) := backend_reads sizes stop (new_data_reader mx) t in
  let '(de, d2, t2) := dr_drain d1 t1 in
  e <> Some REOF /\ (exists x, de = Some (rerr_of_terr x)) /\ t_buf t2 = [] /\ t_raw t2 = [].
Proof.
  intros Htr Hc Hra. pose proof (drain_incomplete mx sizes stop t body Htr Hc) as H.
  destruct (backend_reads sizes stop (new_data_reader mx) t) as [[[out e] d1] t1].
  destruct (dr_drain d1 t1) as [[de d2] t2] eqn:Hdr.
  destruct H as (Hl & [(He & Hq & Hb & Hr & Hcl & Htl)|(He & Hde & Hq & Hb & Hr & Hl2)]).
  - (* the backend met the failure; the drain reads on an exhausted transport *)
    rewrite Hra in Hr.
    assert (Htr1 : transparent t1).
    { unfold transparent. rewrite Hr. cbn. auto. }
    assert (Hs1 : tstream t1 = []) by (unfold tstream; rewrite Hb, Hr; reflexivity).
    pose proof (dr_drain_spec d1 t1 Htr1) as Hd. rewrite Hdr, Hs1 in Hd.
    rewrite (spec_of_nil _ Hq) in Hd.
    destruct Hd as (_ & _ & _ & D1 & D2 & D3 & D4 & _).
    split; [rewrite He; intros X; inversion X; eapply rerr_of_terr_not_eof; eauto|].
    split; [eauto|]. split; [exact D3|]. rewrite D4, Hr. reflexivity.
  - split; [destruct He as [-> | ->]; discriminate|].
    split; [eauto|]. split; [exact Hb|]. rewrite Hr. exact Hra.
Qed.

(* ====================================================================== *)
(* C06, reader level: the size limit                                      *)
(* ====================================================================== *)

(* (a) never more than N octets, whatever the stream, the schedule, the read
   sizes and the stopping point *)
Theorem data_limit_bound (lim : Z) (sizes : list nat) (stop : option N) (t : transport) :
  (0 < lim)%Z -> transparent t ->
  let '(out, e, d', t') := backend_reads sizes stop (new_data_reader lim) t in
  (Z.of_nat (List.length out) <= lim)%Z.
Proof.
  intros HN Htr. pose proof (backend_reads_prefix lim sizes stop t Htr) as H.
  destruct (backend_reads sizes stop (new_data_reader lim) t) as [[[out e] d'] t'].
  destruct H as (_ & H & _). exact (H HN).
Qed.

Lemma firstn_length_app {A} (p q : list A) : firstn (List.length p) (p ++ q) = p.
Proof. rewrite firstn_app, firstn_all, Nat.sub_diag. cbn. apply app_nil_r. Qed.

(* (b), (c): a complete message, read to the end *)
Theorem data_limit_complete (lim : Z) (sizes : list nat) (t : transport) body rest :
  (0 < lim)%Z -> transparent t ->
  unstuff (tstream t) = Complete body rest ->
  let '(out, e, d', t') := backend_reads sizes None (new_data_reader lim) t in
  if (Z.of_nat (List.length body) <=? lim)%Z
  then out = body /\ e = Some REOF /\ tstream t' = rest /\ transparent t' /\
       tterm t' = tterm t /\ t_limit t' = t_limit t
  else out = firstn (Z.to_nat lim) body /\ e = Some RTooLarge /\ d_n d' = (-1)%Z.
Proof.
  intros HN Htr Hc. pose proof (backend_reads_spec lim sizes None t Htr) as H.
  destruct (backend_reads sizes None (new_data_reader lim) t) as [[[out e] d'] t'].
  change (unstuff (tstream t)) with (spec_of SBeginLine (tstream t)) in Hc.
  rewrite (new_data_reader_pos lim HN) in H.
  inversion H; subst; cbn [d_state d_limited d_n] in *.
  - discriminate.
  - (* EOF: the whole body, within the budget *)
    destruct H0 as (A & B & C & D & E). rewrite Hc, H1 in A. cbn [spec_of] in A.
    apply prepend_complete_inv in A as [A1 A2]. rewrite app_nil_r in A1. subst body rest.
    destruct H2 as [_ G]. cbn [d_limited d_n] in G. specialize (H3 eq_refl).
    destruct (Z.of_nat (List.length out) <=? lim)%Z eqn:El; [auto 10|].
    apply Z.leb_gt in El. lia.
  - (* too large: exactly N octets, then one more message octet *)
    destruct H4 as (A & _). rewrite Hc in A. symmetry in A.
    apply prepend_complete_inv2 in A as (b' & _ & A). subst body.
    destruct (Z.of_nat (List.length ((out ++ [x]) ++ b')) <=? lim)%Z eqn:El.
    + apply Z.leb_le in El. rewrite !app_length in El. cbn [List.length] in El. lia.
    + split; [|auto]. rewrite <- H2, Nat2Z.id, <- app_assoc. symmetry. apply firstn_length_app.
  - destruct H0 as (_ & A & _). rewrite Hc in A. cbn in A. discriminate.
Qed.

(* (b) spelled out as an equality of runs: within the limit (also at exactly
   N octets) the limited reader and the unlimited reader - under any two
   lists of read sizes - hand over the same octets and the same EOF and leave
   the transport at the same place *)
Theorem data_limit_same_as_unlimited (lim : Z) (sizes sizes0 : list nat) (t : transport) body rest :
  (0 < lim)%Z -> transparent t ->
  unstuff (tstream t) = Complete body rest ->
  (Z.of_nat (List.length body) <= lim)%Z ->
  let '(out, e, d', t') := backend_reads sizes None (new_data_reader lim) t in
  let '(out0, e0, d0', t0') := backend_reads sizes0 None (new_data_reader 0) t in
  out = out0 /\ e = e0 /\ out = body /\ e = Some REOF /\
  tstream t' = tstream t0' /\ tstream t' = rest /\ transparent t' /\
  tterm t' = tterm t /\ t_limit t' = t_limit t.
Proof.
  intros HN Htr Hc Hle.
  pose proof (data_limit_complete lim sizes t body rest HN Htr Hc) as H1.
  pose proof (data_byte_exact t sizes0 Htr) as H0. rewrite Hc in H0.
  destruct (backend_reads sizes None (new_data_reader lim) t) as [[[out e] d'] t'].
  destruct (backend_reads sizes0 None (new_data_reader 0) t) as [[[out0 e0] d0'] t0'].
  apply Z.leb_le in Hle. rewrite Hle in H1.
  destruct H1 as (A & B & C & D & E & F). destruct H0 as (A0 & B0 & C0 & _).
  subst. auto 12.
Qed.

(* (c) spelled out *)
Theorem data_limit_exceeded (lim : Z) (sizes : list nat) (t : transport) body rest :
  (0 < lim)%Z -> transparent t ->
  unstuff (tstream t) = Complete body rest ->
  (lim < Z.of_nat (List.length body))%Z ->
  let '(out, e, d', t') := backend_reads sizes None (new_data_reader lim) t in
  out = firstn (Z.to_nat lim) body /\ Z.of_nat (List.length out) = lim /\
  e = Some RTooLarge /\ e <> Some REOF.
Proof.
  intros HN Htr Hc Hgt.
  pose proof (data_limit_complete lim sizes t body rest HN Htr Hc) as H1.
  destruct (backend_reads sizes None (new_data_reader lim) t) as [[[out e] d'] t'].
  apply Z.leb_gt in Hgt. rewrite Hgt in H1. destruct H1 as (A & B & _).
  split; [exact A|]. split; [|split; [exact B|rewrite B; discriminate]].
  subst out. rewrite firstn_length. apply Z.leb_gt in Hgt. lia.
Qed.

(* ====================================================================== *)
(* C07, reader level: a cut stream                                        *)
(* ====================================================================== *)

Theorem data_incomplete_never_eof (mx : Z) (sizes : list nat) (stop : option N) (t : transport) body :
  transparent t ->
  unstuff (tstream t) = Incomplete body ->
  let '(out, e, d', t') := backend_reads sizes stop (new_data_reader mx) t in
  e <> Some REOF /\ d_state d' <> SEOF /\
  ((exists k, stop = Some k /\ e = None) \/
   e = Some (rerr_of_terr (tterm t)) \/
   (e = Some RTooLarge /\ (0 < mx)%Z /\ (mx < Z.of_nat (List.length body))%Z)).
Proof.
  intros Htr Hc. pose proof (backend_reads_spec mx sizes stop t Htr) as H.
  destruct (backend_reads sizes stop (new_data_reader mx) t) as [[[out e] d'] t'].
  change (unstuff (tstream t)) with (spec_of SBeginLine (tstream t)) in Hc.
  rewrite <- (new_data_reader_state mx) in Hc.
  assert (Hq : forall o', adv (d_state (new_data_reader mx)) t o' (d_state d') t' ->
                          d_state d' <> SEOF).
  { intros o' (A & _) Hq. rewrite Hc, Hq in A. destruct o'; discriminate. }
  inversion H; subst.
  - split; [discriminate|]. split; [eapply Hq; eauto|]. left. eauto.
  - exfalso. eapply Hq; eauto.
  - split; [discriminate|]. split; [eapply Hq; eauto|]. right. right.
    destruct (new_data_reader_limited mx H0) as [Hmx Hn]. split; [reflexivity|]. split; [exact Hmx|].
    destruct H4 as (A & _). rewrite Hc in A. symmetry in A.
    apply prepend_incomplete_inv in A as (b' & _ & A). subst body.
    rewrite !app_length. cbn [List.length]. lia.
  - split; [apply not_eq_sym; intros X; inversion X; eapply rerr_of_terr_not_eof; eauto|].
    split; [apply H0|]. right. left. reflexivity.
Qed.

(* the backend reads until the reader stops it *)
Corollary data_incomplete_error (mx : Z) (sizes : list nat) (t : transport) body :
  transparent t ->
  unstuff (tstream t) = Incomplete body ->
  let '(out, e, d', t') := backend_reads sizes None (new_data_reader mx) t in
  e <> Some REOF /\
  (e = Some (rerr_of_terr (tterm t)) \/
   (e = Some RTooLarge /\ (0 < mx)%Z /\ (mx < Z.of_nat (List.length body))%Z)).
Proof.
  intros Htr Hc. pose proof (data_incomplete_never_eof mx sizes None t body Htr Hc) as H.
  destruct (backend_reads sizes None (new_data_reader mx) t) as [[[out e] d'] t'].
  destruct H as (A & _ & [(k & X & _)|[B|B]]); [discriminate|auto|auto].
Qed.

(* cut-point form: take ANY stream s holding a complete message, cut it at ANY
   offset k before the last octet of its end marker has gone through, deliver
   the k octets by ANY schedule and end it with ANY failure (EOF, timeout,
   error): the reader never reports EOF, and neither does the drain when the
   connection delivers nothing after the failure *)
Theorem data_cut_never_eof (mx : Z) (sizes : list nat) (stop : option N)
        (s body rest : bytes) (k : nat) (t : transport) :
  unstuff s = Complete body rest ->
  k < List.length s - List.length rest ->
  transparent t -> tstream t = firstn k s ->
  let '(out, e, d1, t1) := backend_reads sizes stop (new_data_reader mx) t in
  e <> Some REOF /\ d_state d1 <> SEOF /\
  (stop = None -> e = Some (rerr_of_terr (tterm t)) \/ e = Some RTooLarge) /\
  (raws_after (t_raw t) = [] ->
   let '(de, d2, t2) := dr_drain d1 t1 in exists x, de = Some (rerr_of_terr x)).
Proof.
  intros Hc Hk Htr Hs.
  destruct (unstuff_prefix_incomplete s body rest k Hc Hk) as (b & Hb). rewrite <- Hs in Hb.
  pose proof (data_incomplete_never_eof mx sizes stop t b Htr Hb) as H1.
  pose proof (drain_incomplete_never_eof mx sizes stop t b Htr Hb) as H2.
  destruct (backend_reads sizes stop (new_data_reader mx) t) as [[[out e] d1] t1].
  destruct H1 as (A & B & C). split; [exact A|]. split; [exact B|]. split.
  - intros ->. destruct C as [(k0 & X & _)|[C|(C & _)]]; [discriminate|auto|auto].
  - intros Hra. specialize (H2 Hra). destruct (dr_drain d1 t1) as [[de d2] t2]. apply H2.
Qed.

(* ====================================================================== *)
(* Non-vacuity: concrete instances of the hypotheses, with the results     *)
(* ====================================================================== *)

(* "ab" CRLF "." CRLF "NOOP" CRLF : marker after the first line; a bait
   ".CRLF"-free prefix; unstuff_marker_first's pre = "ab" CRLF *)
Example marker_first_witness :
  let s := bs "ab" ++ [CR; LF] ++ end_marker ++ bs "NOOP" ++ [CR; LF] in
  unstuff s = Complete (bs "ab" ++ [CR; LF]) (bs "NOOP" ++ [CR; LF]) /\
  s = (bs "ab" ++ [CR; LF]) ++ end_marker ++ (bs "NOOP" ++ [CR; LF]) /\
  ends_crlf (bs "ab" ++ [CR; LF]).
Proof. split; [reflexivity|]. split; [reflexivity|]. right. exists (bs "ab"). reflexivity. Qed.

(* the hypotheses of unstuff_lookalikes hold for a stream full of look-alikes
   (checked through the characterisation) and its result is Incomplete *)
Example lookalikes_witness :
  let s := bs "a" ++ [LF; DOT; LF] ++ bs "b" ++ [LF; DOT; CR; LF] ++ bs "c" ++
           [CR; LF; DOT; LF] ++ bs "d" ++ [CR; DOT; CR] ++ bs "e" ++ [CR; LF] in
  unstuff s = Incomplete (bs "a" ++ [LF; DOT; LF] ++ bs "b" ++ [LF; DOT; CR; LF] ++ bs "c" ++
                          [CR; LF; LF] ++ bs "d" ++ [CR; DOT; CR] ++ bs "e" ++ [CR; LF]).
Proof. reflexivity. Qed.

Example lookalike_hyps_witness :
  plainb (bs "Subject: x") = true /\ plainb (bs "MAIL FROM:<bait>") = true /\
  no_lead_dot (bs "Subject: x") /\ no_lead_dot (bs "MAIL FROM:<bait>").
Proof. repeat split; reflexivity. Qed.

(* every cut point of a 12-octet stream whose marker ends at offset 9 *)
Example prefix_incomplete_witness :
  let s := bs "ab" ++ [CR; LF] ++ bs ".c" ++ [CR; LF] ++ end_marker ++ bs "Q" in
  unstuff s = Complete (bs "ab" ++ [CR; LF] ++ bs "c" ++ [CR; LF]) (bs "Q") /\
  List.length s - List.length (bs "Q") = 11 /\
  forallb (fun k => match unstuff (firstn k s) with Incomplete _ => true | _ => false end)
          (seq 0 11) = true /\
  unstuff (firstn 11 s) = Complete (bs "ab" ++ [CR; LF] ++ bs "c" ++ [CR; LF]) [].
Proof. repeat split; reflexivity. Qed.

(* A two-segment schedule under a line limit, message "abc" CRLF (5 octets),
   follow-up command "NOOP" CRLF.  Limits below / at / above the size, backend
   reading all / two octets / nothing: the hypotheses of drain_resume,
   data_limit_complete, data_limit_same_as_unlimited, data_limit_exceeded
   hold, and the transport resumes at "NOOP" every time. *)
Definition wit_t : transport :=
  mkT [] [RData "a" (bs "bc" ++ [CR]); RData LF (end_marker ++ bs "NOOP" ++ [CR; LF])]
      0%N 12%N false.

Definition wit_run (mx : Z) (sizes : list nat) (stop : option N) :=
  let '(out, e, d1, t1) := backend_reads sizes stop (new_data_reader mx) wit_t in
  let '(de, d2, t2) := dr_drain d1 t1 in
  (out, e, d_n d1, de, tstream t2).

Example drain_resume_witness :
  transparent wit_t /\
  unstuff (tstream wit_t) = Complete (bs "abc" ++ [CR; LF]) (bs "NOOP" ++ [CR; LF]) /\
  (* no limit, read all *)
  wit_run 0 [3] None = (bs "abc" ++ [CR; LF], Some REOF, 0%Z, Some REOF, bs "NOOP" ++ [CR; LF]) /\
  (* limit above *)
  wit_run 6 [3] None = (bs "abc" ++ [CR; LF], Some REOF, 1%Z, Some REOF, bs "NOOP" ++ [CR; LF]) /\
  (* limit exactly the size: accepted through the probe state d_n = 0 *)
  wit_run 5 [3] None = (bs "abc" ++ [CR; LF], Some REOF, 0%Z, Some REOF, bs "NOOP" ++ [CR; LF]) /\
  (* limit below: N octets, then ErrDataTooLarge (d_n = -1), drain resumes *)
  wit_run 4 [3] None = (bs "abc" ++ [CR], Some RTooLarge, (-1)%Z, Some REOF, bs "NOOP" ++ [CR; LF]) /\
  wit_run 1 [7] None = (bs "a", Some RTooLarge, (-1)%Z, Some REOF, bs "NOOP" ++ [CR; LF]) /\
  (* the backend stops after two octets; with the budget just used up (d_n = 0) *)
  wit_run 0 [2] (Some 2%N) = (bs "ab", None, 0%Z, Some REOF, bs "NOOP" ++ [CR; LF]) /\
  wit_run 2 [2] (Some 2%N) = (bs "ab", None, 0%Z, Some REOF, bs "NOOP" ++ [CR; LF]) /\
  (* the backend reads nothing *)
  wit_run 0 [2] (Some 0%N) = ([], None, 0%Z, Some REOF, bs "NOOP" ++ [CR; LF]) /\
  wit_run 3 [2] (Some 0%N) = ([], None, 3%Z, Some REOF, bs "NOOP" ++ [CR; LF]).
Proof. vm_compute. repeat split; reflexivity. Qed.

(* the same stream cut inside the end marker (after ".CR"), ended by a timeout *)
Definition wit_cut : transport :=
  mkT [] [RData "a" (bs "bc" ++ [CR]); RData LF [DOT; CR]; RFail TTimeout] 0%N 12%N false.

Example incomplete_witness :
  transparent wit_cut /\
  unstuff (tstream wit_cut) = Incomplete (bs "abc" ++ [CR; LF; CR]) /\
  tstream wit_cut = firstn 7 (tstream wit_t) /\
  7 < List.length (tstream wit_t) - List.length (bs "NOOP" ++ [CR; LF]) /\
  raws_after (t_raw wit_cut) = [] /\
  (let '(out, e, d1, t1) := backend_reads [3] None (new_data_reader 0) wit_cut in
   let '(de, d2, t2) := dr_drain d1 t1 in (out, e, de))
  = (bs "abc" ++ [CR; LF], Some (RTransport TTimeout), Some RUnexpectedEOF) /\
  (let '(out, e, d1, t1) := backend_reads [3] None (new_data_reader 2) wit_cut in
   let '(de, d2, t2) := dr_drain d1 t1 in (out, e, de))
  = (bs "ab", Some RTooLarge, Some (RTransport TTimeout)) /\
  (let '(out, e, d1, t1) := backend_reads [3] (Some 1%N) (new_data_reader 5) wit_cut in
   let '(de, d2, t2) := dr_drain d1 t1 in (out, e, de))
  = (bs "abc", None, Some (RTransport TTimeout)).
Proof. vm_compute. repeat split; reflexivity. Qed.
