#!/usr/bin/env python3
"""Regenerate MANIFEST.json from the table below (run after claiming / unclaiming a property)."""
import json, os, sys
V = os.path.dirname(os.path.dirname(os.path.abspath(__file__)))
props = [json.loads(l) for l in open(V + "/properties.jsonl")]
ids = [p["id"] for p in props]

TECH = "machine-checked proof in Coq 8.16.1 over an executable Gallina model + differential correspondence of the model with the implementation (extracted OCaml driver and in-Coq vm_compute shard) + model-independent oracle on the recorded behaviour"
NOTE = "Trusts: Coq kernel (vm_compute for table obligations and the in-Coq shard, no native_compute, no axioms: every property theorem prints 'Closed under the global context'); the hand-written model's fidelity as far as the correspondence run of this check exercises it; extraction (ExtrOcamlBasic only) + OCaml driver; Go harness (scriptConn, recording backend, real crypto/tls for TLS phases); /repo/verif_export.go. Details per run in evidence trusted_base."

CLAIMED = {
 "C01": "Theorems C01_byte_exact / C01_schedule_and_read_size_independent (props/C01.v): for every transport state (any buffered octets + any schedule of raw reads) on which the line limiter stays quiet and every list of backend read sizes, the backend reads exactly the line-wise specification unstuff of the stream followed by io.EOF and the transport is left at the octet after the marker. Tied to data.go by the dr correspondence (exhaustive streams over {'.',CR,LF,x}, random 8-bit streams, all segmentations/read sizes).",
 "C02": "Theorems props/C02.v: only CRLF.CRLF (or a leading .CRLF) completes a stream (C02_marker_first, C02_complete_iff, C02_lookalikes*), and after backend_reads with ANY read sizes / stopping point / size limit followed by the server's drain the transport is positioned exactly at the octets after the end marker (C02_resume, C02_resume_from, C02_drain_from_any_state). Server level: the conv model executes as commands only lines of the command stream (Conn.v handle_data uses exactly these functions); tied by c02 conversations (bait lines, look-alikes x backend behaviours x limits x SMTP/LMTP) with an oracle on bait addresses and the marker command.",
 "C03": "Theorem C03_monitor_accepts (serve_accepted): for ALL configurations, backend scripts, network schedules and fuel the event trace of the server model is accepted by the RFC 5321 ordering monitor; corollaries stated directly on traces (C03_order: Mail only in a live session, Rcpt only after an accepted Mail, Data/BDAT only with >= 1 accepted Rcpt since the last transaction end, recipient limit; C03_end_signalled: every DATA outcome is followed by Reset/Logout before any further command; NewSession sees the TLS state of the greeting). Tied by c03 histories, conv and tls conversations; observed-callback monitor as oracle.",
 "C06": "Theorems props/C06.v (reader level, all streams/schedules/read sizes): never more than N octets (C06_data_bound), a body of at most N octets (N included) is delivered exactly as without a limit (C06_data_same_as_unlimited), a longer one yields the first N octets then ErrDataTooLarge and never EOF (C06_data_exceeded); C12_size_value_enforced for SIZE=. BDAT accumulation is modelled in Conn.handle_bdat and tied by the c06 conversations (limits x sizes N-2..N+2,10N x all 3-chunkings x DATA read sizes x SIZE values up to beyond 2^63).",
 "C07": "Theorems props/C07.v: every proper prefix of a complete stream up to the last octet of its end marker is Incomplete (C07_prefix_incomplete, C07_cut_incomplete), and on an Incomplete stream the reader never returns io.EOF whatever the limit, read sizes, stopping point and kind of failure (C07_data_incomplete, C07_data_cut, C07_drain_never_eof). The BDAT half (pipe closed with a non-EOF error unless LAST was copied in full) is modelled in Conn.v (bd_feed/bd_end) and tied by c07 conversations cut at every byte offset x {EOF, timeout, error} and abandoning commands.",
 "C08": "Theorems props/C08.v from serve_accepted: every successful NewSession is followed by exactly one Logout before the next NewSession and before the end of the trace (C08_exactly_one_logout, with the fuel bound proved sufficient: complete traces end with Close), no callback on a session after its Logout, nothing but Close after the first Close (no command, no reply, no session). Tied by c08 conversations (every cut point, every server-initiated close reason x buffered suffixes); the goroutine-leak part is a runtime observation of the harness (no go-smtp goroutine alive after the connection).",
 "C09": "Server half proved (props/C09.v from serve_accepted): with AllowInsecureAuth=false every SASL event is preceded by a successful TLS upgrade or implicit TLS, SASL only with a live session, after a success no further SASL event until Logout; Base64 decode(encode x)=x for all octet strings (Base64Proofs). Tied by tls/conv/c03/c08 conversations with real crypto/tls. Client half: see evidence (added with Client.v).",
 "C10": "Server half proved (props/C10.v): STARTTLS only when configured and not active, after a successful upgrade the old session is logged out before anything else and the connection state is exactly the initial state with tls=true and an EMPTY read buffer (starttls_state_erased: buffered plaintext dropped). Tied by tls conversations over real crypto/tls (pre-histories x injected plaintext x in-TLS probes). Client half: see evidence (added with Client.v).",
 "C12": "Theorems props/C12.v for every configuration with ANY limit values: capability list characterised line by line (C12_caps_exact), HELO lists nothing, each extension accepted iff enabled / 504 when disabled, SIZE and RCPTMAX values enforced, STARTTLS accepted iff advertised, AUTH 523 without TLS; plus the finite space (4096 configurations, superset of the property's 3072) enumerated by vm_compute. Tied by the c12 sweep of the whole configuration space against the real server (real implicit TLS for the 'active' state).",
 "C13": "Theorems props/C13.v: for all recipient lists (any duplicates) and all backend behaviours exactly one status per recipient in order naming it; under the SetStatus contract the statuses are the independent specification expected_statuses; for every interleaving of handler and delivery task (small-step model with Go channel semantics) the same outcome, no reachable deadlock, termination on fair schedules; BDAT path and plain backend. Tied by lmtp conversations (all recipient sequences <= 4 over 2 addresses x all call sequences within the contract x beyond it x DATA/BDAT).",
 "C17": "Theorems props/C17.v: for every 4xx/5xx code, every enhanced code other than NoEnhancedCode and EVERY message text (any octets, any number of lines) the client's readResponse/toSMTPErr applied to the server's writeError / dataErrorToStatus rendering returns the equal SMTPError (unset enhanced code -> X.0.0 of the class), generic errors map to 451/554; the NoEnhancedCode image is characterised exactly (cannot round-trip by construction of the wire format). Tied by reply cases running the real writeResponse/writeError and Client.readResponse.",
 "C19": "Theorems props/C19.v: with a backend that does not panic no input makes the server model reach a panic (serve_no_panic: the nil-session and other panic points are unreachable), every recovered panic stems from a panicking backend call; the fuel bound (each loop iteration consumes input) gives termination. Line limit and error threshold are modelled exactly (Transport.v, protocol_error) and tied by c19 conversations (lengths L-3..L+5 x positions x segmentations, endless lines, error-threshold mixes, all short hostile strings, random binary).",
 "C20": "Data races: a generic lockset + happens-before soundness theorem (Lockset.v: mutual exclusion; lock discipline or spawn/join ordering on every conflicting pair => no reachable state has two conflicting accesses enabled, for EVERY sequence of handler invocations, any number of live delivery goroutines and any schedule) instantiated on an access table REGENERATED from /repo's source on every run (tools/accesses -> coq/gen/Accesses.v); the set of racy (field, function, function) triples of the current tree is proved to be EXACTLY the 13 listed pairs (conn_races_exactly, vm_compute) - the unlocked command-loop accesses that race with a concurrent Server.Close / exported accessor (known findings F20*) - and every reachable race is on a listed pair (conn_races_only_known); any new racy access breaks the theorem. Deadlock/leaks: Interleave.v proves no reachable deadlock, delivery goroutines end once their pipe is closed, the capacity-1 result send never blocks. Life cycle: ServerLife.v theorems C20_close_once / C20_shutdown / C20_accept_errors / C20_backoff_shape tied to the real Server by scripted-listener runs. Runtime support (not proof): forced-schedule scenarios under go test -race.",
}

UNDER = {
 "C04": "check under construction in this session: reply well-formedness lemmas (ReplyProofs: render_wf, render_ec_class) exist; the one-reply-group-per-command theorem is being proved",
 "C05": "check under construction in this session: c05 conversations and the handle_bdat model are tied; the framing theorem is being proved",
 "C11": "check under construction in this session (reference grammar + classification theorems)",
 "C14": "check under construction in this session (codec round trips are proved in XtextProofs/Utf8Proofs; the client-to-server composition needs Client.v)",
 "C15": "check under construction in this session (needs Client.v)",
 "C16": "check under construction in this session (DotWriterProofs proves the dot-writer/unstuff round trip; the client composition needs Client.v)",
 "C18": "check under construction in this session (needs Client.v)",
}

hooks_commits = ["408521f", "2ce5b1d"]
man = {
 "version": 1,
 "setup_cmd": "bash bin/setup",
 "hooks": {"guard": "verif",
           "enable": "go build -tags verif (the harness module /verif/harness replaces github.com/emersion/go-smtp by /repo and is always built with -tags verif)",
           "baseline_off_cmd": "cd /repo && GOFLAGS=-mod=mod GOPROXY=off GOSUMDB=off go test -vet=off -count=1 ./...",
           "source_commits": hooks_commits, "add_only": True},
 "engines": [{"name": "coq-model+correspondence", "path": "/verif/bin/check", "serves_properties": ids,
              "kind_free_text": "Coq 8.16.1 theorems over a hand-written Gallina model (coq/theories, coq/props) tied to /repo by a Go correspondence harness (harness/) whose recorded cases are replayed through the extracted model (ocaml/) and an in-Coq vm_compute shard; model-independent oracles (CheckOracle.v, CheckLmtp.v, CheckReply.v) judge the recorded behaviour"}],
 "checks": [], "not_applicable": [],
 "notes": "All checks: bin/check <id> <tier>. Evidence in evidence/<id>.json. Known findings in known_findings.json. Seeded changes and which check catches which: seeded/RESULTS.md.",
}
for i in ids:
    if i in CLAIMED and i not in UNDER:
        man["checks"].append({
            "property_id": i, "quick_cmd": "bin/check %s quick" % i, "thorough_cmd": "bin/check %s thorough" % i,
            "evidence_file": "/verif/evidence/%s.json" % i,
            "replay_cmd_template": "python3 /verif/bin/replay.py {path}",
            "engine": "coq-model+correspondence",
            "level_claimed": {"category": "proof", "text": CLAIMED[i], "design_ref": "DESIGN.md section 5, %s" % i},
            "level_note": NOTE, "technique": TECH})
    else:
        man["not_applicable"].append({"property_id": i, "reason": UNDER.get(i, "not claimed")})
json.dump(man, open(V + "/MANIFEST.json", "w"), indent=1)
print("claimed:", [c["property_id"] for c in man["checks"]])
