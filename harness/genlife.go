package harness

// kind "life": the life cycle of the REAL smtp.Server (Serve's accept loop
// with back-off, Close, Shutdown) driven by a scripted net.Listener and
// scripted Close/Shutdown calls.  Compared with coq/theories/ServerLife.v by
// coq/theories/CheckLife.v, and judged against property C20 there.
//
//	(life (ops conn temp perm close shutdown wclose wshutdown (finish n<k>) expire ...)
//	      (obs (skip)|(accepted)|(delay n<ms>)|(serveret nil|err|other)|
//	           (ret nil|closed|ctx|other)|(pending)|(sdret nil|ctx|closed|other)|
//	           (none)|(timeout) ...)            one per op
//	      (serve running|nil|err|other)          what Serve returned in the end
//	      (conns open|closed|finished ...)       per accepted connection
//	      (accepts n<calls of Accept>)
//	      [(liserr once|always)])               the listener's Close returns an error
//
// liserr: the scripted listener's Close does what it always does (Accept
// fails from then on) and then RETURNS an error - the first time it is called
// (once) or every time (always); the usual real cause is a listener the
// application has closed itself.  Server.Close / Shutdown must remember the
// error, carry on (close every connection / wait for the handlers) and return
// it at the end: ret / sdret `liserr`.
//
// wclose / wshutdown: Close / Shutdown with a connection in the window between
// Accept's return and its handler's registration in s.conns.  The window is
// forced, not sampled: Server.Close and Server.Shutdown call the listener's
// Close while holding s.locker (s.done is closed by then), and the scripted
// listener's Close hands a connection to the pending Accept and returns only
// after Serve has spawned its handler and called Accept again.  The handler
// needs s.locker to register, so it registers AFTER Close has gone through
// s.conns (ServerLife.v: OAccept AConn; OClose; ORegister k).

import (
	"sync/atomic"
	"bufio"
	"context"
	"errors"
	"io"
	"log"
	"math/rand"
	"net"
	"sync"
	"time"

	smtp "github.com/emersion/go-smtp"
)

type lifeOp struct {
	kind string // conn temp perm close shutdown wclose wshutdown finish expire
	k    int
}

func (o lifeOp) sx() *Sx {
	if o.kind == "finish" {
		return L(A("finish"), Num(int64(o.k)))
	}
	return A(o.kind)
}

// temporary Accept error, the shape server_test.go uses (net.Error, Temporary()).
type lifeTempErr struct{}

func (lifeTempErr) Error() string   { return "verif: temporary accept error" }
func (lifeTempErr) Timeout() bool   { return false }
func (lifeTempErr) Temporary() bool { return true }

var errLifePerm = errors.New("verif: permanent accept error")
var errLifeClosed = errors.New("verif: listener closed")
var errLifeLisClose = errors.New("verif: the listener's Close reports an error")

type lifeItem struct {
	conn net.Conn
	err  error
}

type lifeListener struct {
	next   chan lifeItem
	closed chan struct{}
	once   sync.Once
	called chan time.Time // one tick per Accept call
	mu     sync.Mutex
	ncalls int
	retAt  time.Time // when the last Accept returned
	onClose func()   // run once by Close before the listener is closed
	failClose string // "", "once", "always": Close returns errLifeLisClose
	nClose    int    // calls of Close
}

func newLifeListener() *lifeListener {
	return &lifeListener{next: make(chan lifeItem), closed: make(chan struct{}), called: make(chan time.Time, 64)}
}

func (l *lifeListener) Accept() (net.Conn, error) {
	l.mu.Lock()
	l.ncalls++
	l.mu.Unlock()
	l.called <- time.Now()
	select {
	case it := <-l.next:
		l.mu.Lock()
		l.retAt = time.Now()
		l.mu.Unlock()
		return it.conn, it.err
	case <-l.closed:
		return nil, errLifeClosed
	}
}

func (l *lifeListener) Close() error {
	l.once.Do(func() {
		l.mu.Lock()
		h := l.onClose
		l.onClose = nil
		l.mu.Unlock()
		if h != nil {
			h()
		}
		close(l.closed)
	})
	l.mu.Lock()
	defer l.mu.Unlock()
	l.nClose++
	if l.failClose == "always" || (l.failClose == "once" && l.nClose == 1) {
		return errLifeLisClose
	}
	return nil
}

func (l *lifeListener) setOnClose(h func()) {
	l.mu.Lock()
	l.onClose = h
	l.mu.Unlock()
}

// armWindow makes the listener's Close (called by Server.Close / Shutdown
// under s.locker) hand one more connection to the pending Accept and wait
// until Serve has spawned its handler (= has called Accept again).  ran
// receives whether that happened.
func (l *lifeListener) armWindow() (lc *lifeConn, ran chan bool) {
	c1, c2 := net.Pipe()
	sc := &closeNotifyConn{Conn: c2, closed: make(chan struct{}), written: make(chan struct{})}
	lc = &lifeConn{client: c1, server: sc, state: "open"}
	ran = make(chan bool, 1)
	l.setOnClose(func() {
		select {
		case l.next <- lifeItem{conn: sc}:
		case <-time.After(lifeWatchdog):
			ran <- false
			return
		}
		select {
		case <-l.called:
			ran <- true
		case <-time.After(lifeWatchdog):
			ran <- false
		}
	})
	return lc, ran
}

// windowFate: what became of the connection accepted in the window - the
// server closed it ("closed"), or its handler greeted it and serves it
// ("open", the greeting is consumed); "" on a hang.
func windowFate(c *lifeConn) string {
	select {
	case <-c.server.closed:
		return "closed"
	case <-c.server.written:
		c.client.SetReadDeadline(time.Now().Add(lifeWatchdog))
		bufio.NewReader(c.client).ReadString('\n')
		c.client.SetReadDeadline(time.Time{})
		return "open"
	case <-time.After(lifeWatchdog):
		return ""
	}
}

func (l *lifeListener) Addr() net.Addr { return fakeAddr{} }

func (l *lifeListener) isClosed() bool {
	select {
	case <-l.closed:
		return true
	default:
		return false
	}
}

type lifeBackend struct{}
type lifeSession struct{}

func (lifeBackend) NewSession(*smtp.Conn) (smtp.Session, error) { return lifeSession{}, nil }
func (lifeSession) Reset()                                      {}
func (lifeSession) Logout() error                               { return nil }
func (lifeSession) Mail(string, *smtp.MailOptions) error        { return nil }
func (lifeSession) Rcpt(string, *smtp.RcptOptions) error        { return nil }
func (lifeSession) Data(r io.Reader) error                      { _, err := io.Copy(io.Discard, r); return err }

type lifeConn struct {
	client net.Conn
	server *closeNotifyConn
	state  string // open closed finished
}

const lifeWatchdog = 15 * time.Second

func lifeRetName(err error) string {
	switch {
	case err == nil:
		return "nil"
	case err == smtp.ErrServerClosed:
		return "closed"
	case err == context.Canceled || err == context.DeadlineExceeded:
		return "ctx"
	case err == errLifePerm:
		return "err"
	case err == errLifeLisClose:
		return "liserr"
	}
	return "other"
}

// RunLife drives one scripted life cycle and returns the case line.
func RunLife(ops []lifeOp, pendingProbe time.Duration) *Sx {
	return RunLifeF(ops, pendingProbe, "")
}

// RunLifeF: the same with a listener whose Close returns an error
// (lisFail "once" / "always"; "" = a listener that closes cleanly).
// after three calls that never returned the generator gives up on the implementation: what has been
// recorded (with its (timeout) observations) is judged, the rest is not worth another watchdog period each
var lifeTimeouts int32

func lifeTimeoutObs() *Sx {
	atomic.AddInt32(&lifeTimeouts, 1)
	return L(A("timeout"))
}

func RunLifeF(ops []lifeOp, pendingProbe time.Duration, lisFail string) *Sx {
	if atomic.LoadInt32(&lifeTimeouts) >= 3 {
		return nil
	}
	l := newLifeListener()
	l.failClose = lisFail
	// the call went through: it did its work and returned nil or the listener's error
	wentThrough := func(err error) bool { return err == nil || (lisFail != "" && err == errLifeLisClose) }
	s := smtp.NewServer(lifeBackend{})
	s.Domain = "verif"
	s.ErrorLog = log.New(io.Discard, "", 0)

	serveRet := make(chan error, 1)
	go func() { serveRet <- s.Serve(l) }()
	serving := true
	serveRes := "running"
	waitAccept := func() bool {
		select {
		case <-l.called:
			return true
		case <-time.After(lifeWatchdog):
			return false
		}
	}
	waitServe := func() bool {
		if !serving {
			return true
		}
		select {
		case err := <-serveRet:
			serving = false
			serveRes = lifeRetName(err)
			return true
		case <-time.After(lifeWatchdog):
			return false
		}
	}
	if !waitAccept() {
		return L(A("life"), L(A("ops")), L(A("obs"), L(A("timeout"))), L(A("serve"), A("running")), L(A("conns")), L(A("accepts"), Num(0)))
	}

	var conns []*lifeConn
	stopped := false // this driver has called Close or Shutdown before
	var sdRet chan error
	var sdCancel context.CancelFunc
	pending := false
	openCount := func() int {
		n := 0
		for _, c := range conns {
			if c.state == "open" {
				n++
			}
		}
		return n
	}
	waitClosed := func(c *lifeConn) bool {
		select {
		case <-c.server.closed:
			return true
		case <-time.After(lifeWatchdog):
			return false
		}
	}

	obs := L(A("obs"))
	opsx := L(A("ops"))
	for _, o := range ops {
		opsx.Add(o.sx())
		switch o.kind {
		case "conn", "temp", "perm":
			if !serving || l.isClosed() {
				obs.Add(L(A("skip")))
				continue
			}
			switch o.kind {
			case "conn":
				c1, c2 := net.Pipe()
				sc := &closeNotifyConn{Conn: c2, closed: make(chan struct{}), written: make(chan struct{})}
				select {
				case l.next <- lifeItem{conn: sc}:
				case <-time.After(lifeWatchdog):
					obs.Add(lifeTimeoutObs())
					continue
				}
				lc := &lifeConn{client: c1, server: sc, state: "open"}
				conns = append(conns, lc)
				// the greeting is written after the handler registered the connection
				c1.SetReadDeadline(time.Now().Add(lifeWatchdog))
				line, err := bufio.NewReader(c1).ReadString('\n')
				c1.SetReadDeadline(time.Time{})
				if err != nil || len(line) < 3 || line[:3] != "220" || !waitAccept() {
					obs.Add(lifeTimeoutObs())
					continue
				}
				obs.Add(L(A("accepted")))
			case "temp":
				select {
				case l.next <- lifeItem{err: lifeTempErr{}}:
				case <-time.After(lifeWatchdog):
					obs.Add(lifeTimeoutObs())
					continue
				}
				// Serve either sleeps and calls Accept again, or returns
				select {
				case t1 := <-l.called:
					l.mu.Lock()
					t0 := l.retAt
					l.mu.Unlock()
					obs.Add(L(A("delay"), Num(int64(t1.Sub(t0)/time.Millisecond))))
				case err := <-serveRet:
					serving = false
					serveRes = lifeRetName(err)
					obs.Add(L(A("serveret"), A(serveRes)))
				case <-time.After(lifeWatchdog):
					obs.Add(lifeTimeoutObs())
				}
			case "perm":
				select {
				case l.next <- lifeItem{err: errLifePerm}:
				case <-time.After(lifeWatchdog):
					obs.Add(lifeTimeoutObs())
					continue
				}
				select {
				case <-l.called:
					obs.Add(L(A("delay"), Num(0))) // Serve went on
				case err := <-serveRet:
					serving = false
					serveRes = lifeRetName(err)
					obs.Add(L(A("serveret"), A(serveRes)))
				case <-time.After(lifeWatchdog):
					obs.Add(lifeTimeoutObs())
				}
			}
		case "close", "wclose":
			var wc *lifeConn
			var ran chan bool
			if o.kind == "wclose" && serving && !l.isClosed() {
				wc, ran = l.armWindow()
			}
			ret := make(chan error, 1)
			go func() { ret <- s.Close() }()
			select {
			case err := <-ret:
				l.setOnClose(nil)
				hung := false
				if wc != nil {
					// the connection of the window: accepted iff the hook ran
					select {
					case ok := <-ran:
						if ok {
							wc.state = windowFate(wc)
							hung = wc.state == ""
						} else {
							hung = true
						}
					default:
						wc.client.Close()
						wc = nil
					}
				}
				if hung {
					obs.Add(lifeTimeoutObs())
				} else {
					obs.Add(L(A("ret"), A(lifeRetName(err))))
				}
				if err == nil {
					// Serve must return; the registered connections must get closed
					waitServe()
					for _, c := range conns {
						if c.state == "open" && waitClosed(c) {
							c.state = "closed"
						}
					}
				} else if wentThrough(err) {
					// the listener's error: the same is expected.  Close has closed the
					// registered connections before it returned, so a short wait is
					// enough to see that one was left open
					waitServe()
					for _, c := range conns {
						if c.state == "open" {
							select {
							case <-c.server.closed:
								c.state = "closed"
							case <-time.After(300 * time.Millisecond):
							}
						}
					}
				}
				if wc != nil {
					if wc.state == "" {
						wc.state = "open"
					}
					conns = append(conns, wc)
				}
			case <-time.After(lifeWatchdog):
				l.setOnClose(nil)
				obs.Add(lifeTimeoutObs())
			}
			stopped = true
		case "shutdown", "wshutdown":
			var wc *lifeConn
			var ran chan bool
			if o.kind == "wshutdown" && serving && !l.isClosed() {
				wc, ran = l.armWindow()
			}
			ctx, cancel := context.WithCancel(context.Background())
			ch := make(chan error, 1)
			go func() { ch <- s.Shutdown(ctx) }()
			if wc != nil {
				// Shutdown is inside the listener's Close (or has returned
				// ErrServerClosed without reaching it)
				hung := false
				hookRan := func(ok bool) {
					if ok {
						wc.state = windowFate(wc)
					}
					hung = !ok || wc.state == ""
					if wc.state == "" {
						wc.state = "open"
					}
					conns = append(conns, wc)
				}
				select {
				case ok := <-ran:
					hookRan(ok)
				case err := <-ch:
					ch <- err
					select {
					case ok := <-ran:
						hookRan(ok)
					default:
						l.setOnClose(nil)
						wc.client.Close()
						wc = nil
					}
				case <-time.After(lifeWatchdog):
					hung = true
				}
				if hung {
					l.setOnClose(nil)
					cancel()
					obs.Add(lifeTimeoutObs())
					stopped = true
					continue
				}
			}
			wait := lifeWatchdog
			if !stopped && openCount() > 0 {
				wait = pendingProbe // expected to block: probe only briefly
			}
			select {
			case err := <-ch:
				cancel()
				obs.Add(L(A("ret"), A(lifeRetName(err))))
				if wentThrough(err) {
					waitServe()
				}
			case <-time.After(wait):
				if wait == lifeWatchdog {
					cancel()
					obs.Add(lifeTimeoutObs())
				} else {
					obs.Add(L(A("pending")))
					pending = true
					sdRet = ch
					sdCancel = cancel
					waitServe()
				}
			}
			stopped = true
		case "finish":
			if o.k >= len(conns) || conns[o.k].state != "open" {
				obs.Add(L(A("skip")))
				continue
			}
			c := conns[o.k]
			c.client.Close()
			if !waitClosed(c) {
				obs.Add(lifeTimeoutObs())
				continue
			}
			c.state = "finished"
			if pending {
				wait := time.Duration(0)
				if openCount() == 0 {
					wait = lifeWatchdog
				}
				select {
				case err := <-sdRet:
					pending = false
					sdCancel()
					obs.Add(L(A("sdret"), A(lifeRetName(err))))
				case <-time.After(wait):
					if wait != 0 {
						obs.Add(lifeTimeoutObs())
					} else {
						obs.Add(L(A("none")))
					}
				}
			} else {
				obs.Add(L(A("none")))
			}
		case "expire":
			if !pending {
				obs.Add(L(A("skip")))
				continue
			}
			sdCancel()
			select {
			case err := <-sdRet:
				pending = false
				obs.Add(L(A("sdret"), A(lifeRetName(err))))
			case <-time.After(lifeWatchdog):
				obs.Add(lifeTimeoutObs())
			}
		}
	}

	// final observations
	if serving {
		select {
		case err := <-serveRet:
			serving = false
			serveRes = lifeRetName(err)
		default:
		}
	}
	cs := L(A("conns"))
	for _, c := range conns {
		if c.state == "open" {
			select {
			case <-c.server.closed:
				c.state = "closed"
			default:
			}
		}
		cs.Add(A(c.state))
	}
	l.mu.Lock()
	n := l.ncalls
	l.mu.Unlock()
	res := L(A("life"), opsx, obs, L(A("serve"), A(serveRes)), cs, L(A("accepts"), Num(int64(n))))
	if lisFail != "" {
		res.Add(L(A("liserr"), A(lisFail)))
	}

	// clean up
	if sdCancel != nil {
		sdCancel()
	}
	for _, c := range conns {
		c.client.Close()
	}
	closed := make(chan struct{})
	go func() { s.Close(); close(closed) }()
	select {
	case <-closed:
	case <-time.After(2 * time.Second):
	}
	l.Close()
	if serving {
		select {
		case <-serveRet:
		case <-time.After(lifeWatchdog):
		}
	}
	for _, c := range conns {
		select {
		case <-c.server.closed:
		case <-time.After(lifeWatchdog):
		}
	}
	return res
}

var lifeAlphabet = []lifeOp{
	{kind: "conn"}, {kind: "temp"}, {kind: "perm"}, {kind: "close"}, {kind: "shutdown"},
	{kind: "finish", k: 0}, {kind: "finish", k: 1}, {kind: "expire"},
	{kind: "wclose"}, {kind: "wshutdown"},
}

// GenLife: exhaustive short op sequences, seeded random longer ones, and the
// back-off cap (nine doublings reach 1 s).
func GenLife(rng *rand.Rand, thorough bool, emit func(*Sx)) {
	probe := 12 * time.Millisecond
	maxLen := 3
	nRandom := 120
	if thorough {
		maxLen = 4
		nRandom = 1500
	}
	// exhaustive
	var rec func(prefix []lifeOp, temps int)
	rec = func(prefix []lifeOp, temps int) {
		if len(prefix) > 0 {
			emit(RunLife(prefix, probe))
		}
		if len(prefix) == maxLen {
			return
		}
		for _, o := range lifeAlphabet {
			t := temps
			if o.kind == "temp" {
				t++
			}
			rec(append(append([]lifeOp{}, prefix...), o), t)
		}
	}
	rec(nil, 0)
	// random: mostly sensible scripts (accepts first, then a stop, then finishes)
	randScript := func() []lifeOp {
		n := 4 + rng.Intn(6)
		var ops []lifeOp
		temps := 0
		nconn := 0
		for j := 0; j < n; j++ {
			var o lifeOp
			switch r := rng.Intn(100); {
			case r < 28:
				o = lifeOp{kind: "conn"}
				nconn++
			case r < 45:
				if temps >= 4 {
					o = lifeOp{kind: "conn"}
					nconn++
				} else {
					o = lifeOp{kind: "temp"}
					temps++
				}
			case r < 50:
				o = lifeOp{kind: "perm"}
			case r < 58:
				o = lifeOp{kind: "close"}
			case r < 62:
				o = lifeOp{kind: "wclose"}
				nconn++
			case r < 71:
				o = lifeOp{kind: "shutdown"}
			case r < 76:
				o = lifeOp{kind: "wshutdown"}
				nconn++
			case r < 94:
				o = lifeOp{kind: "finish", k: rng.Intn(nconn + 1)}
			default:
				o = lifeOp{kind: "expire"}
			}
			ops = append(ops, o)
		}
		return ops
	}
	for i := 0; i < nRandom; i++ {
		emit(RunLife(randScript(), probe))
	}
	// the cap: 5 10 20 40 80 160 320 640 1000 1000 ms, with accepts in between
	capOps := []lifeOp{}
	for i := 0; i < 10; i++ {
		capOps = append(capOps, lifeOp{kind: "temp"})
		if i == 2 || i == 8 {
			capOps = append(capOps, lifeOp{kind: "conn"})
		}
	}
	capOps = append(capOps, lifeOp{kind: "shutdown"}, lifeOp{kind: "finish", k: 1}, lifeOp{kind: "expire"}, lifeOp{kind: "close"})
	emit(RunLife(capOps, probe))
	genLifeListenerFault(rng, thorough, probe, randScript, emit)
	if thorough {
		capOps2 := []lifeOp{}
		for i := 0; i < 11; i++ {
			capOps2 = append(capOps2, lifeOp{kind: "temp"})
		}
		capOps2 = append(capOps2, lifeOp{kind: "perm"}, lifeOp{kind: "close"}, lifeOp{kind: "shutdown"})
		emit(RunLife(capOps2, probe))
	}
}

// genLifeListenerFault: the listener's Close returns an error (once / always)
// during Close, Shutdown, and both with a connection in the accept window,
// with connections in every state - none, registered and served, finished,
// several, Serve already gone after a permanent Accept error (the realistic
// cause: the listener has been closed behind the server's back) - followed by
// the events that tell "carried on" from "stopped at the error": second calls,
// the peers finishing in both orders, the context expiring.
func genLifeListenerFault(rng *rand.Rand, thorough bool, probe time.Duration, randScript func() []lifeOp, emit func(*Sx)) {
	conn, temp, perm := lifeOp{kind: "conn"}, lifeOp{kind: "temp"}, lifeOp{kind: "perm"}
	fin := func(k int) lifeOp { return lifeOp{kind: "finish", k: k} }
	cl, sd, expire := lifeOp{kind: "close"}, lifeOp{kind: "shutdown"}, lifeOp{kind: "expire"}
	prefixes := [][]lifeOp{
		{},
		{conn},
		{conn, conn},
		{conn, fin(0)},
		{conn, conn, fin(0)},
		{conn, conn, fin(1)},
		{temp, conn},
		{perm},
		{conn, perm},
		{conn, conn, fin(0), perm},
	}
	stops := []lifeOp{cl, sd, {kind: "wclose"}, {kind: "wshutdown"}}
	conts := [][]lifeOp{
		{},
		{cl},
		{sd},
		{fin(0), fin(1), fin(2)},
		{fin(2), fin(1), fin(0), expire},
		{expire, fin(0), fin(1)},
		{cl, fin(0), sd},
		{fin(0), sd, fin(1), cl},
		{conn, fin(1), expire, cl},
	}
	for _, mode := range []string{"once", "always"} {
		for _, p := range prefixes {
			for _, st := range stops {
				for _, ct := range conts {
					ops := append(append(append([]lifeOp{}, p...), st), ct...)
					emit(RunLifeF(ops, probe, mode))
				}
			}
		}
	}
	// every short sequence once more with the failing listener
	var rec func(prefix []lifeOp)
	rec = func(prefix []lifeOp) {
		if len(prefix) > 0 {
			emit(RunLifeF(prefix, probe, "once"))
		}
		if len(prefix) == 2 || (thorough && len(prefix) == 3) {
			return
		}
		for _, o := range lifeAlphabet {
			rec(append(append([]lifeOp{}, prefix...), o))
		}
	}
	rec(nil)
	n := 60
	if thorough {
		n = 700
	}
	for i := 0; i < n; i++ {
		mode := "once"
		if rng.Intn(2) == 0 {
			mode = "always"
		}
		emit(RunLifeF(randScript(), probe, mode))
	}
}
