package harness

import (
	"encoding/hex"
	"fmt"
	"strconv"
	"strings"
)

// Re-running recorded cases against the implementation: the case line holds
// the exact inputs (configuration, backend script, raw read schedule); Rerun
// decodes them, runs the real server again and returns a fresh case line
// (same inputs, behaviour observed now).

func ParseSx(s string) (*Sx, error) {
	toks := strings.Fields(strings.NewReplacer("(", " ( ", ")", " ) ").Replace(s))
	pos := 0
	var parse func() (*Sx, error)
	parse = func() (*Sx, error) {
		if pos >= len(toks) {
			return nil, fmt.Errorf("unexpected end")
		}
		t := toks[pos]
		pos++
		if t == "(" {
			l := L()
			for pos < len(toks) && toks[pos] != ")" {
				x, err := parse()
				if err != nil {
					return nil, err
				}
				l.Add(x)
			}
			if pos >= len(toks) {
				return nil, fmt.Errorf("missing )")
			}
			pos++
			return l, nil
		}
		if t == ")" {
			return nil, fmt.Errorf("unexpected )")
		}
		return A(t), nil
	}
	x, err := parse()
	if err != nil {
		return nil, err
	}
	if pos != len(toks) {
		return nil, fmt.Errorf("trailing tokens")
	}
	return x, nil
}

func (s *Sx) field(name string) *Sx {
	for _, x := range s.List {
		if x.IsL && len(x.List) > 0 && !x.List[0].IsL && x.List[0].Atom == name {
			return x
		}
	}
	return nil
}

func (s *Sx) arg1(name string) *Sx {
	f := s.field(name)
	if f == nil || len(f.List) < 2 {
		return nil
	}
	return f.List[1]
}

func sxBytes(x *Sx) []byte {
	if x == nil || x.IsL || !strings.HasPrefix(x.Atom, "x") {
		return nil
	}
	b, _ := hex.DecodeString(x.Atom[1:])
	return b
}

func sxInt(x *Sx) int64 {
	if x == nil || x.IsL || len(x.Atom) < 2 {
		return 0
	}
	n, _ := strconv.ParseInt(x.Atom[1:], 10, 64)
	if x.Atom[0] == 'm' {
		return -n
	}
	return n
}

func sxBool(x *Sx) bool { return x != nil && !x.IsL && x.Atom == "t" }

func decBErr(x *Sx) BErr {
	if x == nil || !x.IsL {
		return BNil
	}
	switch x.List[0].Atom {
	case "smtp":
		return BSmtp(int(sxInt(x.List[1])), [3]int{int(sxInt(x.List[2])), int(sxInt(x.List[3])), int(sxInt(x.List[4]))}, string(sxBytes(x.List[5])))
	case "plain":
		return BPlain(string(sxBytes(x.List[1])))
	}
	return BNil
}

func decRaws(x *Sx) []Raw {
	var rs []Raw
	for _, r := range x.List {
		switch r.List[0].Atom {
		case "d":
			rs = append(rs, Raw{Kind: RawData, Data: sxBytes(r.List[1])})
		case "eof":
			rs = append(rs, Raw{Kind: RawEOF})
		case "timeout":
			rs = append(rs, Raw{Kind: RawTimeout})
		default:
			rs = append(rs, Raw{Kind: RawErr})
		}
	}
	return rs
}

func decCfg(c *Sx) Cfg {
	cfg := Cfg{}
	cfg.LMTP = sxBool(c.arg1("lmtp"))
	cfg.TLSConfig = sxBool(c.arg1("tlscfg"))
	cfg.Domain = string(sxBytes(c.arg1("domain")))
	cfg.MaxRcpt = int(sxInt(c.arg1("maxrcpt")))
	cfg.MaxBytes = sxInt(c.arg1("maxbytes"))
	cfg.MaxLine = int(sxInt(c.arg1("maxline")))
	cfg.Insecure = sxBool(c.arg1("insecure"))
	cfg.UTF8 = sxBool(c.arg1("utf8"))
	cfg.RequireTLS = sxBool(c.arg1("requiretls"))
	cfg.BinaryMIME = sxBool(c.arg1("binarymime"))
	cfg.DSN = sxBool(c.arg1("dsn"))
	cfg.RRVS = sxBool(c.arg1("rrvs"))
	cfg.LMTPSession = sxBool(c.arg1("lmtpsession"))
	cfg.ImplicitTLS = sxBool(c.arg1("implicittls"))
	if t := c.arg1("timeouts"); t != nil {
		cfg.Timeouts = sxBool(t)
	}
	if a := c.arg1("auth"); a != nil && a.IsL {
		cfg.HasAuth = true
		for _, m := range a.List {
			cfg.Auth = append(cfg.Auth, string(sxBytes(m)))
		}
	}
	return cfg
}

func decScript(b *Sx) Script {
	var s Script
	errs := func(name string) []BErr {
		var out []BErr
		if l := b.arg1(name); l != nil {
			for _, e := range l.List {
				out = append(out, decBErr(e))
			}
		}
		return out
	}
	s.NS, s.Mail, s.Rcpt = errs("ns"), errs("mail"), errs("rcpt")
	if d := b.arg1("data"); d != nil {
		for _, p := range d.List {
			pl := DataPlan{Stop: -1}
			for _, z := range p.arg1("sizes").List {
				pl.Sizes = append(pl.Sizes, int(sxInt(z)))
			}
			if st := p.arg1("stop"); st != nil && st.Atom != "none" {
				pl.Stop = sxInt(st)
			}
			pl.Retry = int(sxInt(p.arg1("retry")))
			pl.Ret = decBErr(p.arg1("ret"))
			pl.Prop = sxBool(p.arg1("prop"))
			pl.Panic = sxBool(p.arg1("panic"))
			if e := p.arg1("early"); e != nil {
				pl.Early = sxBool(e)
			}
			for _, sc := range p.arg1("status").List {
				pl.Status = append(pl.Status, StatusCall{Addr: string(sxBytes(sc.List[0])), Err: decBErr(sc.List[1])})
			}
			s.Data = append(s.Data, pl)
		}
	}
	if a := b.arg1("auth"); a != nil {
		for _, p := range a.List {
			ap := AuthPlan{Start: decBErr(p.arg1("start"))}
			for _, st := range p.arg1("steps").List {
				ap.Steps = append(ap.Steps, SaslStep{Challenge: sxBytes(st.List[1]), Done: sxBool(st.List[2]), Err: decBErr(st.List[3])})
			}
			s.Auth = append(s.Auth, ap)
		}
	}
	return s
}

// Rerun re-executes one recorded case line; kinds it cannot re-run are returned unchanged.
func Rerun(line string) (string, error) {
	x, err := ParseSx(line)
	if err != nil || !x.IsL || len(x.List) == 0 {
		return line, fmt.Errorf("undecodable case: %v", err)
	}
	switch x.List[0].Atom {
	case "conv":
		c := ConvCase{Cfg: decCfg(x.field("cfg")), Script: decScript(x.field("be"))}
		for _, ph := range x.arg1("phases").List {
			c.Phases = append(c.Phases, decRaws(ph))
		}
		if e := x.field("expect"); e != nil {
			c.Extra = e.List[1:]
		}
		stuckConversations = 0
		return RunConv(c).String(), nil
	case "dr":
		d := DrCase{LineLimit: int(sxInt(x.arg1("linelimit"))), Max: sxInt(x.arg1("max")), Raws: decRaws(x.arg1("raws")), Stop: -1}
		for _, z := range x.arg1("sizes").List {
			d.Sizes = append(d.Sizes, int(sxInt(z)))
		}
		if st := x.arg1("stop"); st != nil && st.Atom != "none" {
			d.Stop = sxInt(st)
		}
		d.Retry = int(sxInt(x.arg1("retry")))
		return RunDr(d).String(), nil
	}
	return line, fmt.Errorf("kind %s is not re-runnable (shown as recorded)", x.List[0].Atom)
}
