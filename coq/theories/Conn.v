(* conn.go + server.go: the server side of one connection - configuration,
   connection state, one handler per command and the command loop - as a
   function from (configuration, backend script, network schedule) to the list
   of observable events. *)
From Smtp Require Import Bytes GoStrings Transport DataReader Parse Xtext Base64 Reply Rfc3339 Lmtp.
Local Open Scope char_scope.

(* ---------- configuration ---------- *)

Record config := mkCfg {
  cf_lmtp : bool;
  cf_tls_config : bool;        (* Server.TLSConfig != nil *)
  cf_domain : bytes;
  cf_max_rcpt : N;
  cf_max_bytes : Z;
  cf_max_line : N;
  cf_insecure_auth : bool;
  cf_utf8 : bool; cf_requiretls : bool; cf_binarymime : bool; cf_dsn : bool; cf_rrvs : bool;
  cf_lmtp_session : bool;      (* sessions implement LMTPSession *)
  cf_auth : option (list bytes); (* Some mechs: sessions implement AuthSession *)
  cf_implicit_tls : bool       (* the connection is TLS from the start *)
}.

(* ---------- what the backend is told ---------- *)

Record mail_opts := mkMO {
  mo_body : bytes; mo_size : Z; mo_requiretls : bool; mo_utf8 : bool;
  mo_ret : bytes; mo_envid : bytes; mo_auth : option bytes
}.
Definition mo_zero : mail_opts := mkMO [] 0 false false [] [] None.

Record rcpt_opts := mkRO {
  ro_notify : list bytes; ro_orcpt_type : bytes; ro_orcpt : bytes; ro_rrvs : option rtime
}.
Definition ro_zero : rcpt_opts := mkRO [] [] [] None.

(* ---------- backend script ---------- *)

Record data_plan := mkDP {
  dp_sizes : list nat;        (* buffer sizes of its Read calls, cyclic *)
  dp_stop : option N;         (* stop reading after that many octets; None: until the reader ends *)
  dp_ret : berr;              (* its return value *)
  dp_prop : bool;             (* return the reader's error instead, if the reader failed *)
  dp_panic : bool;            (* panic instead of returning *)
  dp_status : list (bytes * berr)   (* LMTPData: SetStatus calls made before returning *)
}.
Definition dp_default : data_plan := mkDP [4096%nat] None BNil true false [].

Inductive sasl_step := SaslStep (challenge : bytes) (done : bool) (err : berr).
Record auth_plan := mkAP { ap_start : berr; ap_steps : list sasl_step }.
Definition ap_default : auth_plan := mkAP BNil [].

Record backend := mkBE {
  be_ns : list berr; be_mail : list berr; be_rcpt : list berr;
  be_data : list data_plan; be_auth : list auth_plan
}.

Definition pop {A} (d : A) (l : list A) : A * list A :=
  match l with x :: r => (x, r) | [] => (d, []) end.

(* ---------- events ---------- *)

Inductive event :=
| EWire (b : bytes)                                  (* octets written to the peer *)
| ECmd (line : bytes)                                (* ghost: the loop consumed a line *)
| ENewSession (helo : bytes) (tls : bool) (r : berr)
| EMail (from : bytes) (o : mail_opts) (r : berr)
| ERcpt (to : bytes) (o : rcpt_opts) (r : berr)
| EData (got : bytes) (term : option rerr) (r : berr) (panic : bool)   (* Session.Data / LMTPData on the DATA path *)
| EBdatStart                                         (* ghost: a chunked transfer's delivery goroutine is started *)
| EDelivery (got : bytes) (term : option rerr) (r : berr) (panic : bool) (* ... on the BDAT path (own goroutine) *)
| EReset
| ELogout
| EAuth (mech : bytes) (r : berr)
| EAuthNext (resp : option bytes) (challenge : bytes) (done : bool) (r : berr)
| EAuthOk                                            (* ghost: the AUTH exchange succeeded (235) *)
| EClose                                             (* Conn.Close closed the socket *)
| EPanic                                             (* a panic was recovered in handle *)
| ETlsStart (ok : bool)                              (* STARTTLS handshake result *)
| EOutOfFuel.

(* ---------- connection state ---------- *)

Record bdat := mkBD {
  bd_plan : data_plan;
  bd_got : bytes;                 (* octets the backend has read *)
  bd_done : option berr;          (* the backend has returned (or panicked): what it closed the pipe with *)
  bd_rcpts : list bytes;          (* recipients captured when the transfer started *)
  bd_panics : bool                (* the delivery ends in a panic (backend, or a SetStatus it may not make) *)
}.

Record conn := mkC {
  c_t : transport;
  c_phases : list (list raw);     (* schedules of later TLS phases *)
  c_be : backend;
  c_helo : bytes;
  c_session : bool;
  c_errs : N;
  c_binarymime : bool;
  c_from : bool;
  c_rcpts : list bytes;
  c_did_auth : bool;
  c_closed : bool;
  c_tls : bool;
  c_bdat : option bdat;
  c_received : Z
}.

Definition upd_t (c : conn) (t : transport) : conn :=
  mkC t (c_phases c) (c_be c) (c_helo c) (c_session c) (c_errs c) (c_binarymime c) (c_from c)
      (c_rcpts c) (c_did_auth c) (c_closed c) (c_tls c) (c_bdat c) (c_received c).
Definition upd_be (c : conn) (b : backend) : conn :=
  mkC (c_t c) (c_phases c) b (c_helo c) (c_session c) (c_errs c) (c_binarymime c) (c_from c)
      (c_rcpts c) (c_did_auth c) (c_closed c) (c_tls c) (c_bdat c) (c_received c).
Definition upd_helo (c : conn) (h : bytes) : conn :=
  mkC (c_t c) (c_phases c) (c_be c) h (c_session c) (c_errs c) (c_binarymime c) (c_from c)
      (c_rcpts c) (c_did_auth c) (c_closed c) (c_tls c) (c_bdat c) (c_received c).
Definition upd_session (c : conn) (s : bool) : conn :=
  mkC (c_t c) (c_phases c) (c_be c) (c_helo c) s (c_errs c) (c_binarymime c) (c_from c)
      (c_rcpts c) (c_did_auth c) (c_closed c) (c_tls c) (c_bdat c) (c_received c).
Definition upd_errs (c : conn) (n : N) : conn :=
  mkC (c_t c) (c_phases c) (c_be c) (c_helo c) (c_session c) n (c_binarymime c) (c_from c)
      (c_rcpts c) (c_did_auth c) (c_closed c) (c_tls c) (c_bdat c) (c_received c).
Definition upd_binarymime (c : conn) (b : bool) : conn :=
  mkC (c_t c) (c_phases c) (c_be c) (c_helo c) (c_session c) (c_errs c) b (c_from c)
      (c_rcpts c) (c_did_auth c) (c_closed c) (c_tls c) (c_bdat c) (c_received c).
Definition upd_from (c : conn) (b : bool) : conn :=
  mkC (c_t c) (c_phases c) (c_be c) (c_helo c) (c_session c) (c_errs c) (c_binarymime c) b
      (c_rcpts c) (c_did_auth c) (c_closed c) (c_tls c) (c_bdat c) (c_received c).
Definition upd_rcpts (c : conn) (r : list bytes) : conn :=
  mkC (c_t c) (c_phases c) (c_be c) (c_helo c) (c_session c) (c_errs c) (c_binarymime c) (c_from c)
      r (c_did_auth c) (c_closed c) (c_tls c) (c_bdat c) (c_received c).
Definition upd_did_auth (c : conn) (b : bool) : conn :=
  mkC (c_t c) (c_phases c) (c_be c) (c_helo c) (c_session c) (c_errs c) (c_binarymime c) (c_from c)
      (c_rcpts c) b (c_closed c) (c_tls c) (c_bdat c) (c_received c).
Definition upd_bdat (c : conn) (b : option bdat) : conn :=
  mkC (c_t c) (c_phases c) (c_be c) (c_helo c) (c_session c) (c_errs c) (c_binarymime c) (c_from c)
      (c_rcpts c) (c_did_auth c) (c_closed c) (c_tls c) b (c_received c).
Definition upd_received (c : conn) (z : Z) : conn :=
  mkC (c_t c) (c_phases c) (c_be c) (c_helo c) (c_session c) (c_errs c) (c_binarymime c) (c_from c)
      (c_rcpts c) (c_did_auth c) (c_closed c) (c_tls c) (c_bdat c) z.

(* a handler's result: new state and the events it produced, in order *)
Definition hres := (conn * list event)%type.

Definition reply (code : Z) (ec : ecode) (text : bytes) : event :=
  EWire (write_response code ec [text]).
Definition reply_err (code : Z) (ec : ecode) (e : berr) : event :=
  EWire (write_error code ec e).

(* ---------- BDAT delivery: io.Pipe + the goroutine calling the backend ---------- *)

Definition pipe_err (v : berr) : berr :=
  match v with BNil => berr_of_rerr RClosedPipe | _ => v end.

(* what the backend's Data returns when its reader ended with [term] *)
Definition plan_ret (p : data_plan) (term : option rerr) : berr :=
  match term with
  | Some REOF | None => dp_ret p
  | Some e => if dp_prop p then berr_of_rerr e else dp_ret p
  end.

(* the backend stops by itself, or its reader ends with [term]: the value
   sent on dataResult, and the delivery record *)
Definition bd_finish (b : bdat) (term : option rerr) : bdat * list event :=
  let ret := if bd_panics b then err_panic else plan_ret (bd_plan b) term in
  (mkBD (bd_plan b) (bd_got b) (Some ret) (bd_rcpts b) (bd_panics b),
   [EDelivery (bd_got b) term (plan_ret (bd_plan b) term) (bd_panics b)]).

Definition bd_new (p : data_plan) (rcpts : list bytes) (status_panic : bool) : bdat * list event :=
  let b := mkBD p [] None rcpts (dp_panic p || status_panic) in
  match dp_stop p with
  | Some 0%N => let '(b', ev) := bd_finish b None in (b', EBdatStart :: ev)
  | _ => (b, [EBdatStart])
  end.

(* io.Copy(c.bdatPipe, chunk) for the octets [chunk] obtained from the
   transport: the write error, if any *)
Definition bd_feed (b : bdat) (chunk : bytes) : bdat * list event * option berr :=
  match chunk with
  | [] => (b, [], None)
  | _ =>
      match bd_done b with
      | Some v => (b, [], Some (pipe_err v))
      | None =>
          match dp_stop (bd_plan b) with
          | None => (mkBD (bd_plan b) (bd_got b ++ chunk) None (bd_rcpts b) (bd_panics b), [], None)
          | Some k =>
              let need := (k - blen (bd_got b))%N in
              let '(a, _, _) := take_N need chunk in
              let b1 := mkBD (bd_plan b) (bd_got b ++ a) None (bd_rcpts b) (bd_panics b) in
              if (blen chunk <? need)%N then (b1, [], None)
              else
                let '(b2, ev) := bd_finish b1 None in
                if (blen chunk =? need)%N then (b2, ev, None)
                else (b2, ev, match bd_done b2 with Some v => Some (pipe_err v) | None => None end)
          end
      end
  end.

(* the pipe's write side is closed (EOF after LAST) or aborted (ErrDataReset,
   or the chunk's copy error): the backend's reader ends *)
Definition bd_end (b : bdat) (term : rerr) : bdat * list event :=
  match bd_done b with
  | Some _ => (b, [])
  | None => bd_finish b (Some term)
  end.

(* ---------- reset / Close ---------- *)

(* Conn.reset *)
Definition do_reset (c : conn) : hres :=
  let '(c1, ev1) :=
    match c_bdat c with
    | Some b => let '(_, ev) := bd_end b RDataReset in (upd_bdat c None, ev)
    | None => (c, [])
    end in
  let c2 := upd_received c1 0%Z in
  let ev2 := if c_session c2 then [EReset] else [] in
  (upd_rcpts (upd_from c2 false) [], ev1 ++ ev2).

(* Conn.Close *)
Definition do_close (c : conn) : hres :=
  let '(c1, ev1) :=
    match c_bdat c with
    | Some b => let '(_, ev) := bd_end b RDataReset in (upd_bdat c None, ev)
    | None => (c, [])
    end in
  let ev2 := if c_session c1 then [ELogout] else [] in
  let c2 := upd_session c1 false in
  let c3 := mkC (set_closed (c_t c2)) (c_phases c2) (c_be c2) (c_helo c2) (c_session c2) (c_errs c2)
                (c_binarymime c2) (c_from c2) (c_rcpts c2) (c_did_auth c2) true (c_tls c2)
                (c_bdat c2) (c_received c2) in
  (c3, ev1 ++ ev2 ++ [EClose]).

Definition err_threshold : N := 3.

(* protocolError *)
Definition protocol_error (c : conn) (code : Z) (ec : ecode) (msg : bytes) : hres :=
  let c1 := upd_errs c (c_errs c + 1)%N in
  if (err_threshold <? c_errs c1)%N then
    let '(c2, ev) := do_close c1 in
    (c2, [reply code ec msg; reply 500 (5, 5, 1)%Z (bs "Too many errors. Quiting now")] ++ ev)
  else (c1, [reply code ec msg]).

(* ---------- EHLO / HELO / LHLO ---------- *)

Definition auth_allowed (cfg : config) (c : conn) : bool := c_tls c || cf_insecure_auth cfg.

Definition caps (cfg : config) (c : conn) : list bytes :=
  [bs "PIPELINING"; bs "8BITMIME"; bs "ENHANCEDSTATUSCODES"; bs "CHUNKING"]
  ++ (if cf_tls_config cfg && negb (c_tls c) then [bs "STARTTLS"] else [])
  ++ (if auth_allowed cfg c then
        match cf_auth cfg with
        | Some (m :: ms) => [bs "AUTH" ++ flat_map (fun n => " " :: n) (m :: ms)]
        | _ => []
        end
      else [])
  ++ (if cf_utf8 cfg then [bs "SMTPUTF8"] else [])
  ++ (if c_tls c && cf_requiretls cfg then [bs "REQUIRETLS"] else [])
  ++ (if cf_binarymime cfg then [bs "BINARYMIME"] else [])
  ++ (if cf_dsn cfg then [bs "DSN"] else [])
  ++ (if (0 <? cf_max_bytes cfg)%Z then [bs "SIZE " ++ dec_of_Z (cf_max_bytes cfg)] else [bs "SIZE"])
  ++ (if (0 <? cf_max_rcpt cfg)%N then [bs "LIMITS RCPTMAX=" ++ dec_of_N (cf_max_rcpt cfg)] else [])
  ++ (if cf_rrvs cfg then [bs "RRVS"] else []).

Definition handle_greet (cfg : config) (c : conn) (enhanced : bool) (arg : bytes) : hres :=
  match parse_hello_argument arg with
  | None => (c, [reply 501 (5, 5, 2)%Z (bs "Domain/address argument required for HELO")])
  | Some domain =>
      let c1 := upd_helo c domain in
      let '(c2, ev, ok) :=
        if c_session c1 then let '(c', ev) := do_reset c1 in (c', ev, true)
        else
          let '(r, rest) := pop BNil (be_ns (c_be c1)) in
          let be' := mkBE rest (be_mail (c_be c1)) (be_rcpt (c_be c1)) (be_data (c_be c1)) (be_auth (c_be c1)) in
          let c' := upd_be c1 be' in
          match r with
          | BNil => (upd_session c' true, [ENewSession domain (c_tls c') BNil], true)
          | _ => (upd_helo c' [], [ENewSession domain (c_tls c') r; reply_err 451 (4, 0, 0)%Z r], false)
          end in
      if negb ok then (c2, ev)
      else if negb enhanced then (c2, ev ++ [reply 250 (2, 0, 0)%Z (bs "Hello " ++ domain)])
      else (c2, ev ++ [EWire (write_response 250 no_ec ((bs "Hello " ++ domain) :: caps cfg c2))])
  end.

(* ---------- MAIL ---------- *)

Definition rfail := (Z * ecode * bytes)%type.

(* one MAIL parameter: the updated options and binarymime flag, or a refusal *)
Definition mail_param (cfg : config) (k v : bytes) (o : mail_opts) (bm : bool)
  : (mail_opts * bool) + rfail :=
  let is (s : string) := bytes_eqb k (bs s) in
  if is "SIZE"%string then
    match parse_uint 63 v with
    | POk n =>
        if (0 <? cf_max_bytes cfg)%Z && (cf_max_bytes cfg <? Z.of_N n)%Z
        then inr (552, (5, 3, 4), bs "Max message size exceeded")%Z
        else inl (mkMO (mo_body o) (Z.of_N n) (mo_requiretls o) (mo_utf8 o) (mo_ret o) (mo_envid o) (mo_auth o), bm)
    | PRange =>
        if (0 <? cf_max_bytes cfg)%Z then inr (552, (5, 3, 4), bs "Max message size exceeded")%Z
        else inr (501, (5, 5, 4), bs "Unable to parse SIZE as an integer")%Z
    | PSyntax => inr (501, (5, 5, 4), bs "Unable to parse SIZE as an integer")%Z
    end
  else if is "SMTPUTF8"%string then
    if negb (cf_utf8 cfg) then inr (504, (5, 5, 4), bs "SMTPUTF8 is not implemented")%Z
    else match v with
         | [] => inl (mkMO (mo_body o) (mo_size o) (mo_requiretls o) true (mo_ret o) (mo_envid o) (mo_auth o), bm)
         | _ => inr (501, (5, 5, 4), bs "SMTPUTF8 takes no value")%Z
         end
  else if is "REQUIRETLS"%string then
    if negb (cf_requiretls cfg) then inr (504, (5, 5, 4), bs "REQUIRETLS is not implemented")%Z
    else match v with
         | [] => inl (mkMO (mo_body o) (mo_size o) true (mo_utf8 o) (mo_ret o) (mo_envid o) (mo_auth o), bm)
         | _ => inr (501, (5, 5, 4), bs "REQUIRETLS takes no value")%Z
         end
  else if is "BODY"%string then
    let V := to_upper v in
    if bytes_eqb V (bs "BINARYMIME") then
      if cf_binarymime cfg then inl (mkMO V (mo_size o) (mo_requiretls o) (mo_utf8 o) (mo_ret o) (mo_envid o) (mo_auth o), true)
      else inr (504, (5, 5, 4), bs "BINARYMIME is not implemented")%Z
    else if bytes_eqb V (bs "7BIT") || bytes_eqb V (bs "8BITMIME") then
      inl (mkMO V (mo_size o) (mo_requiretls o) (mo_utf8 o) (mo_ret o) (mo_envid o) (mo_auth o), bm)
    else inr (501, (5, 5, 4), bs "Unknown BODY value")%Z
  else if is "RET"%string then
    if negb (cf_dsn cfg) then inr (504, (5, 5, 4), bs "RET is not implemented")%Z
    else
      let V := to_upper v in
      if bytes_eqb V (bs "FULL") || bytes_eqb V (bs "HDRS") then
        inl (mkMO (mo_body o) (mo_size o) (mo_requiretls o) (mo_utf8 o) V (mo_envid o) (mo_auth o), bm)
      else inr (501, (5, 5, 4), bs "Unknown RET value")%Z
  else if is "ENVID"%string then
    if negb (cf_dsn cfg) then inr (504, (5, 5, 4), bs "ENVID is not implemented")%Z
    else
      match decode_xtext v with
      | Some ((_ :: _) as d) =>
          if is_printable_ascii d then
            inl (mkMO (mo_body o) (mo_size o) (mo_requiretls o) (mo_utf8 o) (mo_ret o) d (mo_auth o), bm)
          else inr (501, (5, 5, 4), bs "Malformed ENVID parameter value")%Z
      | _ => inr (501, (5, 5, 4), bs "Malformed ENVID parameter value")%Z
      end
  else if is "AUTH"%string then
    match decode_xtext v with
    | Some ((_ :: _) as d) =>
        if bytes_eqb d (bs "<>") then
          inl (mkMO (mo_body o) (mo_size o) (mo_requiretls o) (mo_utf8 o) (mo_ret o) (mo_envid o) (Some []), bm)
        else
          match parse_mailbox d with
          | Some (mb, []) =>
              inl (mkMO (mo_body o) (mo_size o) (mo_requiretls o) (mo_utf8 o) (mo_ret o) (mo_envid o) (Some mb), bm)
          | _ => inr (500, (5, 5, 4), bs "Malformed AUTH parameter mailbox")%Z
          end
    | _ => inr (500, (5, 5, 4), bs "Malformed AUTH parameter value")%Z
    end
  else inr (500, (5, 5, 4), bs "Unknown MAIL FROM argument")%Z.

Fixpoint mail_params (cfg : config) (args : list (bytes * bytes)) (o : mail_opts) (bm : bool)
  : (mail_opts * bool) + (rfail * bool) :=
  match args with
  | [] => inl (o, bm)
  | (k, v) :: r =>
      match mail_param cfg k v o bm with
      | inl (o', bm') => mail_params cfg r o' bm'
      | inr f => inr (f, bm)
      end
  end.

(* lexicographic order on octet strings, to visit map keys deterministically *)
Fixpoint bytes_ltb (a b : bytes) : bool :=
  match a, b with
  | [], _ :: _ => true
  | _, [] => false
  | x :: a', y :: b' =>
      if (byte_n x <? byte_n y)%N then true
      else if (byte_n y <? byte_n x)%N then false
      else bytes_ltb a' b'
  end.

Fixpoint insert_kv (kv : bytes * bytes) (l : list (bytes * bytes)) : list (bytes * bytes) :=
  match l with
  | [] => [kv]
  | x :: r => if bytes_ltb (fst kv) (fst x) then kv :: l else x :: insert_kv kv r
  end.
Definition sort_kv (l : list (bytes * bytes)) : list (bytes * bytes) :=
  fold_right insert_kv [] l.

Definition pop_mail (c : conn) : berr * conn :=
  let '(r, rest) := pop BNil (be_mail (c_be c)) in
  (r, upd_be c (mkBE (be_ns (c_be c)) rest (be_rcpt (c_be c)) (be_data (c_be c)) (be_auth (c_be c)))).
Definition pop_rcpt (c : conn) : berr * conn :=
  let '(r, rest) := pop BNil (be_rcpt (c_be c)) in
  (r, upd_be c (mkBE (be_ns (c_be c)) (be_mail (c_be c)) rest (be_data (c_be c)) (be_auth (c_be c)))).
Definition pop_data (c : conn) : data_plan * conn :=
  let '(r, rest) := pop dp_default (be_data (c_be c)) in
  (r, upd_be c (mkBE (be_ns (c_be c)) (be_mail (c_be c)) (be_rcpt (c_be c)) rest (be_auth (c_be c)))).
Definition pop_auth (c : conn) : auth_plan * conn :=
  let '(r, rest) := pop ap_default (be_auth (c_be c)) in
  (r, upd_be c (mkBE (be_ns (c_be c)) (be_mail (c_be c)) (be_rcpt (c_be c)) (be_data (c_be c)) rest)).

Definition syntax_mail : event :=
  reply 501 (5, 5, 2)%Z (bs "Was expecting MAIL arg syntax of FROM:<address>").

Definition handle_mail (cfg : config) (c : conn) (arg : bytes) : hres :=
  match c_helo c with
  | [] => (c, [reply 502 (5, 5, 1)%Z (bs "Please introduce yourself first.")])
  | _ =>
  match c_bdat c with
  | Some _ => (c, [reply 502 (5, 5, 1)%Z (bs "MAIL not allowed during message transfer")])
  | None =>
  match cut_prefix_fold arg (bs "FROM:") with
  | None => (c, [syntax_mail])
  | Some a =>
  match parse_reverse_path (trim_space a) with
  | None => (c, [syntax_mail])
  | Some (from, rest) =>
  match parse_args rest with
  | None => (c, [reply 501 (5, 5, 4)%Z (bs "Unable to parse MAIL ESMTP parameters")])
  | Some args =>
      match mail_params cfg (sort_kv args) mo_zero false with
      | inr ((code, ec, msg), bm) => (upd_binarymime c bm, [reply code ec msg])
      | inl (opts, bm) =>
          let c1 := upd_binarymime c bm in
          if negb (c_session c1) then (c1, [EPanic])   (* nil session: unreachable, see Conn proofs *)
          else
          let '(r, c2) := pop_mail c1 in
          match r with
          | BNil =>
              (upd_from c2 true,
               [EMail from opts BNil;
                reply 250 (2, 0, 0)%Z (bs "Roger, accepting mail from <" ++ from ++ bs ">")])
          | _ => (c2, [EMail from opts r; reply_err 451 (4, 0, 0)%Z r])
          end
      end
  end end end end end.

(* ---------- RCPT ---------- *)

Definition notify_ok (vals : list bytes) : bool :=
  let known v := bytes_eqb v (bs "NEVER") || bytes_eqb v (bs "DELAY")
                 || bytes_eqb v (bs "FAILURE") || bytes_eqb v (bs "SUCCESS") in
  let fix nodup (l : list bytes) : bool :=
    match l with
    | [] => true
    | x :: r => negb (existsb (bytes_eqb x) r) && nodup r
    end in
  match vals with
  | [] => false
  | _ => forallb known vals && nodup vals
         && (negb (existsb (bytes_eqb (bs "NEVER")) vals) || (List.length vals =? 1)%nat)
  end.

Definition rcpt_param (cfg : config) (k v : bytes) (o : rcpt_opts) : rcpt_opts + rfail :=
  let is (s : string) := bytes_eqb k (bs s) in
  if is "NOTIFY"%string then
    if negb (cf_dsn cfg) then inr (504, (5, 5, 4), bs "NOTIFY is not implemented")%Z
    else
      let vals := map to_upper (split_byte "," v) in
      if notify_ok vals then inl (mkRO vals (ro_orcpt_type o) (ro_orcpt o) (ro_rrvs o))
      else inr (501, (5, 5, 4), bs "Malformed NOTIFY parameter value")%Z
  else if is "ORCPT"%string then
    if negb (cf_dsn cfg) then inr (504, (5, 5, 4), bs "ORCPT is not implemented")%Z
    else
      match decode_typed_address v with
      | Some (ty, ((_ :: _) as a)) => inl (mkRO (ro_notify o) ty a (ro_rrvs o))
      | _ => inr (501, (5, 5, 4), bs "Malformed ORCPT parameter value")%Z
      end
  else if is "RRVS"%string then
    if negb (cf_rrvs cfg) then inr (504, (5, 5, 4), bs "RRVS is not implemented")%Z
    else
      let v1 := match cut_byte ";" v with Some (a, _) => a | None => v end in
      match parse_rfc3339 v1 with
      | Some t => inl (mkRO (ro_notify o) (ro_orcpt_type o) (ro_orcpt o) (Some t))
      | None => inr (501, (5, 5, 4), bs "Malformed RRVS parameter value")%Z
      end
  else inr (500, (5, 5, 4), bs "Unknown RCPT TO argument")%Z.

Fixpoint rcpt_params (cfg : config) (args : list (bytes * bytes)) (o : rcpt_opts) : rcpt_opts + rfail :=
  match args with
  | [] => inl o
  | (k, v) :: r =>
      match rcpt_param cfg k v o with
      | inl o' => rcpt_params cfg r o'
      | inr f => inr f
      end
  end.

Definition syntax_rcpt : event :=
  reply 501 (5, 5, 2)%Z (bs "Was expecting RCPT arg syntax of TO:<address>").

Definition handle_rcpt (cfg : config) (c : conn) (arg : bytes) : hres :=
  if negb (c_from c) then (c, [reply 502 (5, 5, 1)%Z (bs "Missing MAIL FROM command.")])
  else
  match c_bdat c with
  | Some _ => (c, [reply 502 (5, 5, 1)%Z (bs "RCPT not allowed during message transfer")])
  | None =>
  match cut_prefix_fold arg (bs "TO:") with
  | None => (c, [syntax_rcpt])
  | Some a =>
  match parse_path (trim_space a) with
  | None => (c, [syntax_rcpt])
  | Some (rcpt, rest) =>
      if (0 <? cf_max_rcpt cfg)%N && (cf_max_rcpt cfg <=? N.of_nat (List.length (c_rcpts c)))%N then
        (c, [reply 452 (4, 5, 3)%Z
               (bs "Maximum limit of " ++ dec_of_N (cf_max_rcpt cfg) ++ bs " recipients reached")])
      else
      match parse_args rest with
      | None => (c, [reply 501 (5, 5, 4)%Z (bs "Unable to parse RCPT ESMTP parameters")])
      | Some args =>
          match rcpt_params cfg (sort_kv args) ro_zero with
          | inr (code, ec, msg) => (c, [reply code ec msg])
          | inl opts =>
              if negb (c_session c) then (c, [EPanic])
              else
              let '(r, c1) := pop_rcpt c in
              match r with
              | BNil =>
                  (upd_rcpts c1 (c_rcpts c1 ++ [rcpt]),
                   [ERcpt rcpt opts BNil;
                    reply 250 (2, 0, 0)%Z (bs "I'll make sure <" ++ rcpt ++ bs "> gets this")])
              | _ => (c1, [ERcpt rcpt opts r; reply_err 451 (4, 0, 0)%Z r])
              end
          end
      end
  end end end.

(* ---------- DATA ---------- *)

Definition status_reply (a : bytes) (e : berr) : event :=
  let '(code, ec, msg) := data_error_to_status e in
  EWire (write_response code ec [bs "<" ++ a ++ bs "> " ++ msg]).

(* Session.Data(r) / LMTPData(r, status) called synchronously with a DATA reader *)
Definition call_data (p : data_plan) (d : dreader) (t : transport)
  : bytes * option rerr * berr * dreader * transport :=
  let '(got, term, d', t') := backend_reads (dp_sizes p) (dp_stop p) d t in
  (got, term, plan_ret p term, d', t').

(* "_, err := io.Copy(ioutil.Discard, r)": err == nil iff the reader reached
   the end marker (io.EOF); otherwise the position in the stream is unknown and
   the handler closes the connection after its reply *)
Definition drained (de : option rerr) : bool :=
  match de with Some REOF => true | _ => false end.

(* "if err != nil { c.Close() }" *)
Definition close_unless (ok : bool) (c : conn) : hres :=
  if ok then (c, []) else do_close c.

Definition handle_data (cfg : config) (c : conn) (arg : bytes) : hres :=
  match arg with
  | _ :: _ => (c, [reply 501 (5, 5, 4)%Z (bs "DATA command should not have any arguments")])
  | [] =>
  match c_bdat c with
  | Some _ => (c, [reply 502 (5, 5, 1)%Z (bs "DATA not allowed during message transfer")])
  | None =>
  if c_binarymime c then (c, [reply 502 (5, 5, 1)%Z (bs "DATA not allowed for BINARYMIME messages")])
  else if negb (c_from c) || match c_rcpts c with [] => true | _ => false end then
    (c, [reply 502 (5, 5, 1)%Z (bs "Missing RCPT TO command.")])
  else
    let go := EWire (write_response 354 no_ec [bs "Go ahead. End your data with <CR><LF>.<CR><LF>"]) in
    if negb (c_session c) then (c, [go; EPanic]) else
    let '(p, c1) := pop_data c in
    let '(got, term, ret, d1, t1) := call_data p (new_data_reader (cf_max_bytes cfg)) (c_t c1) in
    if negb (cf_lmtp cfg) then
      if dp_panic p then
        (* the deferred reset runs, then handle's recover: 421 and Close *)
        let '(c2, ev2) := do_reset (upd_t c1 t1) in
        let '(c3, ev3) := do_close c2 in
        (c3, [go; EData got term ret true] ++ ev2 ++ [EPanic; reply 421 (4, 0, 0)%Z (bs "Internal server error")] ++ ev3)
      else
        let '(de, _, t2) := dr_drain d1 t1 in
        let '(code, ec, msg) := data_error_to_status ret in
        let '(c2, ev2) := close_unless (drained de) (upd_t c1 t2) in
        let '(c3, ev3) := do_reset c2 in
        (c3, [go; EData got term ret false; reply code ec msg] ++ ev2 ++ ev3)
    else if negb (cf_lmtp_session cfg) then
      (* LMTP with a plain backend: one status for everybody *)
      if dp_panic p then
        let '(c2, ev2) := do_reset (upd_t c1 t1) in
        let '(c3, ev3) := do_close c2 in
        (c3, [go; EData got term ret true] ++ ev2 ++ [EPanic; reply 421 (4, 0, 0)%Z (bs "Internal server error")] ++ ev3)
      else
        let '(de, _, t2) := dr_drain d1 t1 in
        let '(c2, ev2) := close_unless (drained de) (upd_t c1 t2) in
        let '(c3, ev3) := do_reset c2 in
        (c3, [go; EData got term ret false] ++ map (fun a => status_reply a ret) (c_rcpts c1) ++ ev2 ++ ev3)
    else
      (* LMTPSession: own goroutine; replies per recipient from the collector *)
      let '(sts, panicked) := lmtp_statuses (c_rcpts c1) (dp_status p) ret (dp_panic p) in
      let replies := map (fun '(a, e) => status_reply a e) sts in
      if panicked then
        let '(c2, ev2) := do_close (upd_t c1 t1) in
        let '(c3, ev3) := do_reset c2 in
        (c3, [go; EData got term ret true] ++ replies ++ ev2 ++ ev3)
      else
        let '(de, _, t2) := dr_drain d1 t1 in
        let '(c2, ev2) := close_unless (drained de) (upd_t c1 t2) in
        let '(c3, ev3) := do_reset c2 in
        (c3, [go; EData got term ret false] ++ replies ++ ev2 ++ ev3)
  end end.

(* ---------- BDAT ---------- *)

(* discardChunk: fewer than [size] octets could be read (n < size): what comes
   next on the connection is not a command, Close *)
Definition discard_chunk (cfg : config) (c : conn) (size : N) : hres :=
  let t0 := set_limit (c_t c) 0 in
  let '(_, cerr, t1) := t_copy_n size t0 in
  close_unless (match cerr with None => true | Some _ => false end)
               (upd_t c (set_limit t1 (cf_max_line cfg))).

Definition rerr_of_copy (e : terr) : rerr :=
  match e with TEof => RUnexpectedEOF | _ => RTransport e end.

(* final replies of a chunked LMTP transfer *)
Definition bdat_lmtp_replies (cfg : config) (b : bdat) (err : berr) : list event * bool :=
  let p := bd_plan b in
  (* the value the backend returned / was recorded on dataResult *)
  let ret := match bd_done b with Some v => v | None => BNil end in
  let '(sts, panicked) :=
    if cf_lmtp_session cfg then
      (* statuses are set by LMTPData before it returns; [err] fills the rest *)
      let '(col, _) := run_statuses (dp_status p) (mk_collector (bd_rcpts b)) in
      if bd_panics b then (emit_statuses (bd_rcpts b) (fill_remaining err_panic col), true)
      else (emit_statuses (bd_rcpts b) (fill_remaining err col), false)
    else
      if bd_panics b then (map (fun a => (a, err_panic)) (bd_rcpts b), true)
      else (map (fun a => (a, ret)) (bd_rcpts b), false) in
  (map (fun '(a, e) => status_reply a e) sts, panicked).

Definition handle_bdat (cfg : config) (c : conn) (arg : bytes) : hres :=
  match fields arg with
  | [] => (c, [reply 501 (5, 5, 4)%Z (bs "Missing chunk size argument")])
  | _ :: _ :: _ :: _ => (c, [reply 501 (5, 5, 4)%Z (bs "Too many arguments")])
  | a0 :: more =>
  match parse_uint 32 a0 with
  | PSyntax | PRange => (c, [reply 501 (5, 5, 4)%Z (bs "Malformed size argument")])
  | POk size =>
  if negb (c_from c) || match c_rcpts c with [] => true | _ => false end then
    let '(c1, ev1) := discard_chunk cfg c size in
    (c1, reply 502 (5, 5, 1)%Z (bs "Missing RCPT TO command.") :: ev1)
  else
  let last_ok :=
    match more with
    | [] => Some false
    | a1 :: _ => if equal_fold a1 (bs "LAST") then Some true else None
    end in
  match last_ok with
  | None =>
      let '(c1, ev1) := discard_chunk cfg c size in
      (c1, reply 501 (5, 5, 4)%Z (bs "Unknown BDAT argument") :: ev1)
  | Some last =>
  if negb (cf_max_bytes cfg =? 0)%Z && (cf_max_bytes cfg <? c_received c + Z.of_N size)%Z then
    let '(c1, ev1) := discard_chunk cfg c size in
    let '(c2, ev2) := do_reset c1 in
    (c2, [reply 552 (5, 3, 4)%Z (bs "Max message size exceeded")] ++ ev1 ++ ev2)
  else
  if negb (c_session c) && match c_bdat c with None => true | Some _ => false end then (c, [EPanic]) else
  (* start the delivery if there is none *)
  let '(b0, ev0, c0) :=
    match c_bdat c with
    | Some b => (b, [], c)
    | None =>
        let '(p, c1) := pop_data c in
        let status_panic :=
          cf_lmtp cfg && cf_lmtp_session cfg
          && snd (run_statuses (dp_status p) (mk_collector (c_rcpts c1))) in
        let '(b, ev) := bd_new p (c_rcpts c1) status_panic in
        (b, ev, c1)
    end in
  (* copy the chunk with the line limit off *)
  let '(chunk, cerr, t1) := t_copy_n size (set_limit (c_t c0) 0) in
  let '(b1, ev1, werr) := bd_feed b0 chunk in
  (* io.Copy stops at the first write error; otherwise a read error or a short chunk *)
  let err : option (berr * rerr) :=
    match werr with
    | Some e => Some (e, RDataReset)
    | None =>
        match cerr with
        | Some te => Some (berr_of_rerr (rerr_of_copy te), rerr_of_copy te)
        | None => None
        end
    end in
  match err with
  | Some (e, pe) =>
      (* failed chunk: "io.Copy(ioutil.Discard, chunk)".  After a write error the
         rest of the chunk has been consumed already (t_copy_n took all [size]
         octets, or stopped at a failing read, where the discard stops too); after
         a READ error the discard goes on reading the rest of the declared size.
         [short]: "chunk.N > 0", the declared octets could not all be read *)
      let '(_, derr, t1) :=
        match werr, cerr with
        | None, Some _ => t_copy_n (size - blen chunk) t1
        | _, _ => ([], cerr, t1)
        end in
      let short := match derr with Some _ => true | None => false end in
      let c1 := upd_bdat (upd_t c0 t1) (Some b1) in
      let '(c2, evr, closeit) :=
        if last && cf_lmtp cfg then
          (* CloseWithError(err); <-dataResult; per-recipient replies *)
          let '(b2, ev2) := bd_end b1 pe in
          let '(rs, _) := bdat_lmtp_replies cfg b2 e in
          (upd_bdat c1 (Some b2), ev2 ++ rs,
           (match werr with Some _ => bd_panics b1 | None => false end) || short)
        else
          let '(code, ec, msg) := data_error_to_status e in
          (* "if err == errPanic || chunk.N > 0": the pipe was closed by the panic
             handler, or the rest of the chunk could not be read *)
          (c1, [reply code ec msg], (match werr with Some _ => bd_panics b1 | None => false end) || short) in
      let '(c3, ev3) := if closeit then do_close c2 else (c2, []) in
      let '(c4, ev4) := do_reset c3 in
      (upd_t c4 (set_limit (c_t c4) (cf_max_line cfg)), ev0 ++ ev1 ++ evr ++ ev3 ++ ev4)
  | None =>
      let c1 := upd_received (upd_bdat (upd_t c0 (set_limit t1 (cf_max_line cfg))) (Some b1))
                             (c_received c0 + Z.of_N size)%Z in
      if negb last then (c1, ev0 ++ ev1 ++ [reply 250 (2, 0, 0)%Z (bs "Continue")])
      else
        (* bdatPipe.Close(); err := <-dataResult *)
        let '(b2, ev2) := bd_end b1 REOF in
        let ret := match bd_done b2 with Some v => v | None => BNil end in
        let c2 := upd_bdat c1 (Some b2) in
        if cf_lmtp cfg then
          let '(rs, panicked) := bdat_lmtp_replies cfg b2 ret in
          if panicked then
            let '(c3, ev3) := do_close c2 in (c3, ev0 ++ ev1 ++ ev2 ++ rs ++ ev3)
          else
            let '(c3, ev3) := do_reset c2 in (c3, ev0 ++ ev1 ++ ev2 ++ rs ++ ev3)
        else
          let '(code, ec, msg) := data_error_to_status ret in
          if bd_panics b2 then
            let '(c3, ev3) := do_close c2 in (c3, ev0 ++ ev1 ++ ev2 ++ [reply code ec msg] ++ ev3)
          else
            let '(c3, ev3) := do_reset c2 in (c3, ev0 ++ ev1 ++ ev2 ++ [reply code ec msg] ++ ev3)
  end end end end.

(* ---------- reading a command line ---------- *)

(* Conn.readLine: textproto ReadLine, then the check that the limiter has
   not tripped while the line was being assembled *)
Definition conn_read_line (c : conn) : (bytes + terr) * conn :=
  let '(r, t') := t_read_line (c_t c) in
  match r with
  | inl line => if too_long t' then (inr TTooLong, upd_t c t') else (inl line, upd_t c t')
  | inr e => (inr e, upd_t c t')
  end.

(* ---------- AUTH ---------- *)

Fixpoint auth_loop (steps : list sasl_step) (c : conn) (resp : option bytes)
  : conn * list event * bool :=
  match steps with
  | [] => (c, [EAuthNext resp [] true BNil], true)
  | SaslStep ch done err :: rest =>
      let ev0 := EAuthNext resp ch done err in
      match err with
      | BNil =>
          if done then (c, [ev0], true)
          else
            let enc := match ch with [] => [] | _ => b64_encode ch end in
            let w := EWire (write_response 334 no_ec [enc]) in
            match conn_read_line c with
            | (inr _, c1) => (c1, [ev0; w], false)
            | (inl line, c1) =>
                if bytes_eqb line (bs "*") then
                  (c1, [ev0; w; reply 501 (5, 0, 0)%Z (bs "Negotiation cancelled")], false)
                else
                  match decode_sasl_response line with
                  | None => (c1, [ev0; w; reply 454 (4, 7, 0)%Z (bs "Invalid base64 data")], false)
                  | Some r =>
                      let '(c2, ev, ok) := auth_loop rest c1 (Some r) in
                      (c2, ev0 :: w :: ev, ok)
                  end
            end
      | _ => (c, [ev0; reply_err 454 (4, 7, 0)%Z err], false)
      end
  end.

Definition err_auth_unknown_mechanism : berr :=
  BSmtp 504 (5, 7, 4)%Z (bs "Unsupported authentication mechanism").

Definition handle_auth (cfg : config) (c : conn) (arg : bytes) : hres :=
  match c_helo c with
  | [] => (c, [reply 502 (5, 5, 1)%Z (bs "Please introduce yourself first.")])
  | _ =>
  if c_did_auth c then (c, [reply 503 (5, 5, 1)%Z (bs "Already authenticated")])
  else
  match fields arg with
  | [] => (c, [reply 502 (5, 5, 4)%Z (bs "Missing parameter")])
  | m :: more =>
  if negb (auth_allowed cfg c) then (c, [reply 523 (5, 7, 10)%Z (bs "TLS is required")])
  else
  let mech := to_upper m in
  let ir : option (option bytes) :=
    match more with
    | [] => Some None
    | x :: _ => match decode_sasl_response x with Some r => Some (Some r) | None => None end
    end in
  match ir with
  | None => (c, [reply 454 (4, 7, 0)%Z (bs "Invalid base64 data")])
  | Some ir =>
  match cf_auth cfg with
  | None => (c, [reply_err 454 (4, 7, 0)%Z err_auth_unknown_mechanism])
  | Some _ =>
      let '(p, c1) := pop_auth c in
      match ap_start p with
      | BNil =>
          let '(c2, ev, ok) := auth_loop (ap_steps p) c1 ir in
          if ok then
            (upd_did_auth c2 true,
             EAuth mech BNil :: ev ++ [reply 235 (2, 0, 0)%Z (bs "Authentication succeeded"); EAuthOk])
          else (c2, EAuth mech BNil :: ev)
      | e => (c1, [EAuth mech e; reply_err 454 (4, 7, 0)%Z e])
      end
  end end end end.

(* ---------- STARTTLS ---------- *)

(* What a failed handshake swallows from the plaintext schedule: crypto/tls
   reads until it has a 5-octet record header (or the read fails). *)
Fixpoint hs_consume (rs : list raw) (have : nat) : list raw :=
  match rs with
  | [] => []
  | RFail _ :: r => r
  | RData _ d :: r =>
      if (5 <=? have + S (List.length d))%nat then r else hs_consume r (have + S (List.length d))
  end.

Definition handle_starttls (cfg : config) (c : conn) : hres :=
  if c_tls c then (c, [reply 502 (5, 5, 1)%Z (bs "Already running in TLS")])
  else if negb (cf_tls_config cfg) then (c, [reply 502 (5, 5, 1)%Z (bs "TLS not supported")])
  else
    let w := reply 220 (2, 0, 0)%Z (bs "Ready to start TLS") in
    match t_raw (c_t c), c_phases c with
    | [], ph :: phs =>
        (* the peer starts the handshake exactly here: it succeeds *)
        let t' := mkT [] ph 0 (cf_max_line cfg) false in
        let ev1 := if c_session c then [ELogout] else [] in
        let c1 := mkC t' phs (c_be c) [] false (c_errs c) (c_binarymime c) (c_from c) (c_rcpts c)
                      false (c_closed c) true (c_bdat c) (c_received c) in
        let '(c2, ev2) := do_reset c1 in
        (c2, [w; ETlsStart true] ++ ev1 ++ ev2)
    | rs, _ =>
        (* plaintext (or nothing) where the ClientHello should be: it fails *)
        let t' := set_raw_cur (c_t c) (hs_consume rs 0) (t_cur (c_t c)) in
        (upd_t c t', [w; ETlsStart false; reply 550 (5, 0, 0)%Z (bs "Handshake error")])
    end.

(* ---------- dispatch ---------- *)

Definition cmd_is (cmd : bytes) (s : string) : bool := bytes_eqb cmd (bs s).

Definition handle (cfg : config) (c : conn) (cmd0 arg : bytes) : hres :=
  match cmd0 with
  | [] => protocol_error c 500 (5, 5, 2)%Z (bs "Error: bad syntax")
  | _ =>
  let cmd := to_upper cmd0 in
  if cmd_is cmd "SEND" || cmd_is cmd "SOML" || cmd_is cmd "SAML" || cmd_is cmd "EXPN"
     || cmd_is cmd "HELP" || cmd_is cmd "TURN" then
    (c, [reply 502 (5, 5, 1)%Z (cmd ++ bs " command not implemented")])
  else if cmd_is cmd "HELO" || cmd_is cmd "EHLO" || cmd_is cmd "LHLO" then
    let lmtp := cmd_is cmd "LHLO" in
    let enhanced := lmtp || cmd_is cmd "EHLO" in
    if cf_lmtp cfg && negb lmtp then (c, [reply 500 (5, 5, 1)%Z (bs "This is a LMTP server, use LHLO")])
    else if negb (cf_lmtp cfg) && lmtp then (c, [reply 500 (5, 5, 1)%Z (bs "This is not a LMTP server")])
    else handle_greet cfg c enhanced arg
  else if cmd_is cmd "MAIL" then handle_mail cfg c arg
  else if cmd_is cmd "RCPT" then handle_rcpt cfg c arg
  else if cmd_is cmd "VRFY" then (c, [reply 252 (2, 5, 0)%Z (bs "Cannot VRFY user, but will accept message")])
  else if cmd_is cmd "NOOP" then (c, [reply 250 (2, 0, 0)%Z (bs "I have successfully done nothing")])
  else if cmd_is cmd "RSET" then
    let '(c1, ev) := do_reset c in (c1, ev ++ [reply 250 (2, 0, 0)%Z (bs "Session reset")])
  else if cmd_is cmd "BDAT" then handle_bdat cfg c arg
  else if cmd_is cmd "DATA" then handle_data cfg c arg
  else if cmd_is cmd "QUIT" then
    let '(c1, ev) := do_close c in (c1, reply 221 (2, 0, 0)%Z (bs "Bye") :: ev)
  else if cmd_is cmd "AUTH" then handle_auth cfg c arg
  else if cmd_is cmd "STARTTLS" then handle_starttls cfg c
  else protocol_error c 500 (5, 5, 2)%Z (bs "Syntax errors, " ++ cmd ++ bs " command unrecognized")
  end.

(* ---------- handleConn ---------- *)

(* the deferred c.Close() of handleConn *)
Definition final_close (c : conn) : list event := snd (do_close c).

Fixpoint serve_loop (fuel : nat) (cfg : config) (c : conn) : list event :=
  match fuel with
  | O => [EOutOfFuel]
  | S f =>
      if c_closed c then final_close c
      else
        match conn_read_line c with
        | (inl line, c1) =>
            ECmd line ::
            match parse_cmd line with
            | None =>
                let '(c2, ev) := protocol_error c1 501 (5, 5, 2)%Z (bs "Bad command") in
                ev ++ serve_loop f cfg c2
            | Some (cmd, arg) =>
                let '(c2, ev) := handle cfg c1 cmd arg in
                ev ++ serve_loop f cfg c2
            end
        | (inr e, c1) =>
            match e with
            | TEof | TClosed => final_close c1
            | TTooLong =>
                reply 500 (5, 4, 0)%Z (bs "Too long line, closing connection") :: final_close c1
            | TTimeout => reply 421 (4, 4, 2)%Z (bs "Idle timeout, bye bye") :: final_close c1
            | TNetErr => reply 421 (4, 4, 0)%Z (bs "Connection error, sorry") :: final_close c1
            end
        end
  end.

Definition init_conn (cfg : config) (be : backend) (phases : list (list raw)) : conn :=
  let '(ph, rest) := match phases with p :: r => (p, r) | [] => ([], []) end in
  mkC (mkT [] ph 0 (cf_max_line cfg) false) rest be [] false 0 false false [] false false
      (cf_implicit_tls cfg) None 0.

Definition greeting (cfg : config) : event :=
  EWire (write_response 220 no_ec
           [cf_domain cfg ++ (if cf_lmtp cfg then bs " LMTP" else bs " ESMTP") ++ bs " Service Ready"]).

Definition serve (fuel : nat) (cfg : config) (be : backend) (phases : list (list raw)) : list event :=
  greeting cfg :: serve_loop fuel cfg (init_conn cfg be phases).
