(* C17 - backend errors reach the peer and the client with code, class and
   text intact.

   Server side: Reply.v ([write_error], [write_response],
   [data_error_to_status] = conn.go writeError / writeResponse /
   dataErrorToStatus).  Client side: ClientReply.v ([client_read_response] =
   Client.readResponse over net/textproto's ReadResponse, strconv.Atoi,
   toSMTPErr, parseEnhancedCode).  [envelope_reply e] is what session
   creation, MAIL and RCPT write for a backend error e (writeError with the
   451 4.0.0 defaults), [data_reply e] what DATA writes
   (writeResponse(dataErrorToStatus(e))).

   C17_roundtrip: for every reply code 400..599, every enhanced code other
   than NoEnhancedCode (unset = {0,0,0}, or any three ints), EVERY message
   text (any octets and any number of LF-separated lines: empty, leading or
   trailing spaces, lines that themselves look like an enhanced code,
   non-ASCII, ...), every expectCode that does not accept the code (all the
   client's call sites: 250, 354, 220, 221, 25, ...) and whatever follows the
   reply on the stream: the real pipeline "render, then parse" returns the
   reply code, SMTPError{code, default_ec code ec, msg} - the unset enhanced
   code having become X.0.0 of the code's class - and leaves exactly the
   following octets unread.  [wire_msg ..] is the raw message readResponse
   returns next to the error (each line still prefixed by the enhanced code).

   C17_generic: any other error is 451 4.0.0 <text> (envelope commands) resp.
   554 5.0.0 "Error: transaction failed: " <text> (DATA), and the client
   returns exactly that SMTPError.

   C17_no_enhanced_code_image / _refuted: NoEnhancedCode (explicitly absent)
   cannot round-trip - the wire format cannot express it; the exact image is
   toSMTPErr of the bare text (EnhancedCodeNotSet, or a look-alike parsed out
   of the text), with three concrete instances.

   C17_expect_zero: with expectCode 0 (AUTH only) textproto never reports an
   error; the caller gets code and raw text. *)
From Smtp Require Import Bytes Reply ClientReply ReplySpec ReplyProofs.

Theorem C17_roundtrip code ec msg expect rest :
  (400 <= code <= 599)%Z ->
  ec_eqb ec no_ec = false -> ec_int ec ->
  expect_mismatch expect code = true ->
  client_read_response expect (envelope_reply (BSmtp code ec msg) ++ rest)
  = ((code, wire_msg (default_ec code ec) (split_byte LF msg),
      CSmtp code (default_ec code ec) msg), rest)
  /\
  client_read_response expect (data_reply (BSmtp code ec msg) ++ rest)
  = ((code, wire_msg (default_ec code ec) (split_byte LF msg),
      CSmtp code (default_ec code ec) msg), rest).
Proof. exact (ReplyProofs.C17_roundtrip code ec msg expect rest). Qed.
Print Assumptions C17_roundtrip.

Theorem C17_expect_rejects_4xx5xx expect code :
  (400 <= code <= 599)%Z ->
  (1 <= expect < 4 \/ 10 <= expect < 40 \/ 100 <= expect < 400)%Z ->
  expect_mismatch expect code = true.
Proof. exact (expect_mismatch_4xx5xx expect code). Qed.
Print Assumptions C17_expect_rejects_4xx5xx.

Theorem C17_unset_becomes_class_default code :
  (200 <= code <= 299 \/ 400 <= code <= 599)%Z ->
  default_ec code ec_not_set = (code / 100, 0, 0)%Z /\
  ec_class_is code (default_ec code ec_not_set).
Proof. exact (defaulting_ok code). Qed.
Print Assumptions C17_unset_becomes_class_default.

Theorem C17_roundtrip_any_code dcode dec code ec msg expect rest :
  (100 <= code <= 999)%Z ->
  ec_eqb (default_ec code ec) no_ec = false -> ec_int (default_ec code ec) ->
  expect_mismatch expect code = true ->
  client_read_response expect (write_error dcode dec (BSmtp code ec msg) ++ rest)
  = ((code, wire_msg (default_ec code ec) (split_byte LF msg),
      CSmtp code (default_ec code ec) msg), rest).
Proof. exact (ReplyProofs.C17_roundtrip_any_code dcode dec code ec msg expect rest). Qed.
Print Assumptions C17_roundtrip_any_code.

Theorem C17_generic m expect rest :
  envelope_reply (BPlain m) = write_response 451 (4, 0, 0)%Z [m] /\
  data_reply (BPlain m) =
    write_response 554 (5, 0, 0)%Z [bs "Error: transaction failed: " ++ m] /\
  (expect_mismatch expect 451 = true ->
   client_read_response expect (envelope_reply (BPlain m) ++ rest)
   = ((451%Z, wire_msg (4, 0, 0)%Z (split_byte LF m), CSmtp 451 (4, 0, 0)%Z m), rest)) /\
  (expect_mismatch expect 554 = true ->
   client_read_response expect (data_reply (BPlain m) ++ rest)
   = ((554%Z, wire_msg (5, 0, 0)%Z (split_byte LF (bs "Error: transaction failed: " ++ m)),
       CSmtp 554 (5, 0, 0)%Z (bs "Error: transaction failed: " ++ m)), rest)).
Proof. exact (ReplyProofs.C17_generic m expect rest). Qed.
Print Assumptions C17_generic.

Theorem C17_no_enhanced_code_image code msg expect rest :
  (100 <= code <= 999)%Z ->
  expect_mismatch expect code = true ->
  client_read_response expect (envelope_reply (BSmtp code no_ec msg) ++ rest)
  = ((code, msg, let '(c, e, m) := to_smtp_err code msg in CSmtp c e m), rest)
  /\
  client_read_response expect (data_reply (BSmtp code no_ec msg) ++ rest)
  = ((code, msg, let '(c, e, m) := to_smtp_err code msg in CSmtp c e m), rest).
Proof. exact (ReplyProofs.C17_no_enhanced_code_image code msg expect rest). Qed.
Print Assumptions C17_no_enhanced_code_image.

Theorem C17_no_enhanced_code_refuted :
  client_read_response 250 (envelope_reply (BSmtp 550 no_ec (bs "mailbox unavailable")))
  = ((550%Z, bs "mailbox unavailable", CSmtp 550 ec_not_set (bs "mailbox unavailable")), [])
  /\
  client_read_response 250 (envelope_reply (BSmtp 550 no_ec (bs "5.1.1 x" ++ LF :: bs "5.1.1 y")))
  = ((550%Z, bs "5.1.1 x" ++ LF :: bs "5.1.1 y", CSmtp 550 (5, 1, 1)%Z (bs "x" ++ LF :: bs "y")), [])
  /\
  client_read_response 250 (envelope_reply (BSmtp 550 no_ec (bs "-1.-1.-1 z")))
  = ((550%Z, bs "-1.-1.-1 z", CSmtp 550 no_ec (bs "z")), []).
Proof. exact ReplyProofs.C17_no_enhanced_code_refuted. Qed.
Print Assumptions C17_no_enhanced_code_refuted.

Theorem C17_expect_zero code ec msg rest :
  (400 <= code <= 599)%Z -> ec_eqb ec no_ec = false -> ec_int ec ->
  client_read_response 0 (envelope_reply (BSmtp code ec msg) ++ rest)
  = ((code, wire_msg (default_ec code ec) (split_byte LF msg), CNil), rest).
Proof. exact (ReplyProofs.C17_expect_zero code ec msg rest). Qed.
Print Assumptions C17_expect_zero.

(* non-vacuity: three-line message with leading/trailing spaces, an empty
   line, lines that look like the reply's own enhanced code, non-ASCII octets *)
Example C17_witness :
  let msg := bs " 5.1.1 looks like a code " ++ LF :: [] ++ LF :: bs "5.1.1 na" ++ [n_byte 195; n_byte 175] ++ bs "ve  " in
  ec_eqb (5, 1, 1)%Z no_ec = false /\ ec_int (5, 1, 1)%Z /\ expect_mismatch 250 550 = true /\
  envelope_reply (BSmtp 550 (5, 1, 1)%Z msg)
  = bs "550-5.1.1  5.1.1 looks like a code " ++ crlf ++ bs "550-5.1.1 " ++ crlf ++
    bs "550 5.1.1 5.1.1 na" ++ [n_byte 195; n_byte 175] ++ bs "ve  " ++ crlf /\
  client_read_response 250 (envelope_reply (BSmtp 550 (5, 1, 1)%Z msg) ++ bs "250 next")
  = ((550%Z, wire_msg (5, 1, 1)%Z (split_byte LF msg), CSmtp 550 (5, 1, 1)%Z msg), bs "250 next").
Proof. exact C17_roundtrip_ex. Qed.
