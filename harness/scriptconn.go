package harness

import (
	"io"
	"net"
	"sync"
	"time"
)

// RawKind of a scripted net.Conn.Read result.
type RawKind int

const (
	RawData RawKind = iota
	RawEOF
	RawTimeout
	RawErr
)

type Raw struct {
	Kind RawKind
	Data []byte
}

func RD(s string) Raw { return Raw{Kind: RawData, Data: []byte(s)} }

type timeoutErr struct{}

func (timeoutErr) Error() string   { return "verif: i/o timeout" }
func (timeoutErr) Timeout() bool   { return true }
func (timeoutErr) Temporary() bool { return true }

type netErr struct{}

func (netErr) Error() string { return "verif: connection reset" }

var ErrScriptTimeout error = timeoutErr{}
var ErrScriptNet error = netErr{}

// ScriptConn is an in-memory net.Conn whose Read results are scripted. It logs
// what every Read returned (after truncation to the caller's buffer) and
// everything written.
type ScriptConn struct {
	mu     sync.Mutex
	script []Raw
	Log    []Raw  // what Read calls returned
	Out    []byte // everything written before Close
	Closed bool
	// OnRead, if set, is called (without the lock) before each Read is served.
	OnRead func()
	// OnWrite, if set, receives every write made before Close.
	OnWrite func([]byte)
}

func NewScriptConn(script []Raw) *ScriptConn {
	c := &ScriptConn{}
	for _, r := range script {
		if r.Kind == RawData && len(r.Data) == 0 {
			continue
		}
		c.script = append(c.script, r)
	}
	return c
}

func (c *ScriptConn) Read(b []byte) (int, error) {
	if c.OnRead != nil {
		c.OnRead()
	}
	c.mu.Lock()
	defer c.mu.Unlock()
	if c.Closed {
		return 0, net.ErrClosed
	}
	if len(b) == 0 {
		return 0, nil
	}
	if len(c.script) == 0 {
		return 0, io.EOF
	}
	r := c.script[0]
	switch r.Kind {
	case RawData:
		n := copy(b, r.Data)
		c.Log = append(c.Log, Raw{Kind: RawData, Data: append([]byte(nil), r.Data[:n]...)})
		if n == len(r.Data) {
			c.script = c.script[1:]
		} else {
			c.script[0].Data = r.Data[n:]
		}
		return n, nil
	case RawEOF:
		c.script = c.script[1:]
		c.Log = append(c.Log, Raw{Kind: RawEOF})
		return 0, io.EOF
	case RawTimeout:
		c.script = c.script[1:]
		c.Log = append(c.Log, Raw{Kind: RawTimeout})
		return 0, ErrScriptTimeout
	default:
		c.script = c.script[1:]
		c.Log = append(c.Log, Raw{Kind: RawErr})
		return 0, ErrScriptNet
	}
}

// Remaining returns the scripted results that were never requested.
func (c *ScriptConn) Remaining() []Raw {
	c.mu.Lock()
	defer c.mu.Unlock()
	return append([]Raw(nil), c.script...)
}

func (c *ScriptConn) Write(b []byte) (int, error) {
	c.mu.Lock()
	if c.Closed {
		c.mu.Unlock()
		return 0, net.ErrClosed
	}
	c.Out = append(c.Out, b...)
	c.mu.Unlock()
	if c.OnWrite != nil {
		c.OnWrite(b)
	}
	return len(b), nil
}

func (c *ScriptConn) Close() error {
	c.mu.Lock()
	defer c.mu.Unlock()
	c.Closed = true
	return nil
}

func (c *ScriptConn) Output() []byte {
	c.mu.Lock()
	defer c.mu.Unlock()
	return append([]byte(nil), c.Out...)
}

func (c *ScriptConn) IsClosed() bool {
	c.mu.Lock()
	defer c.mu.Unlock()
	return c.Closed
}

type fakeAddr struct{}

func (fakeAddr) Network() string { return "verif" }
func (fakeAddr) String() string  { return "verif" }

func (c *ScriptConn) LocalAddr() net.Addr                { return fakeAddr{} }
func (c *ScriptConn) RemoteAddr() net.Addr               { return fakeAddr{} }
func (c *ScriptConn) SetDeadline(t time.Time) error      { return nil }
func (c *ScriptConn) SetReadDeadline(t time.Time) error  { return nil }
func (c *ScriptConn) SetWriteDeadline(t time.Time) error { return nil }

// RawsSx renders a raw schedule.
func RawsSx(rs []Raw) *Sx {
	l := L()
	for _, r := range rs {
		switch r.Kind {
		case RawData:
			l.Add(L(A("d"), X(r.Data)))
		case RawEOF:
			l.Add(L(A("eof")))
		case RawTimeout:
			l.Add(L(A("timeout")))
		default:
			l.Add(L(A("err")))
		}
	}
	return l
}
