#!/bin/bash
# usage: coqgoal.sh file.v LINE  -- compile up to LINE (exclusive) then print the goals
f=$1; n=$2
head -n $((n-1)) $f > /tmp/_goal.v
echo "Show. Abort." >> /tmp/_goal.v
cd /verif/coq && coqc -Q theories Smtp -Q gen SmtpGen -Q props SmtpProps /tmp/_goal.v 2>&1 | grep -v "^Warning\|deprecated" | head -${3:-60}
rm -f /tmp/_goal.vo /tmp/_goal.glob /tmp/._goal.aux /tmp/_goal.vos /tmp/_goal.vok
