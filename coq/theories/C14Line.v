(* C14, helper file 4: the server's line-level parsing (parseCmd, TrimSpace,
   cutPrefixFold, the path parser, strings.Fields, parseArgs) applied to a
   line of the shape the client writes:
       VERB SP "FROM:<" addr ">" { SP token }
   where no token contains white space in the sense of Go's unicode.IsSpace
   ([ws_free]). *)
From Smtp Require Import Bytes GoStrings Utf8 Xtext Parse Utf8Proofs XtextProofs ReplyProofs.
From Coq Require Import Lia.
Local Open Scope char_scope.

(* ------------------------------------------------------------------ *)
(* white space                                                         *)
(* ------------------------------------------------------------------ *)

(* no Unicode white space starts at any position of s *)
Fixpoint ws_free (s : bytes) : bool :=
  match s with
  | [] => true
  | _ :: t => (space_len s =? 0)%nat && ws_free t
  end.

Lemma find_ext_in {A} (f g : A -> bool) l :
  (forall x, In x l -> f x = g x) -> find f l = find g l.
Proof.
  induction l as [|x l IH]; intros H; [reflexivity|]. cbn [find].
  rewrite (H x) by now left. rewrite IH; [reflexivity|]. intros y Hy. apply H. now right.
Qed.

Lemma find_false {A} (l : list A) : find (fun _ => false) l = None.
Proof. induction l; [reflexivity|exact IHl]. Qed.

Lemma is_prefix_app_stop u : forall a c r,
  mem_byte c u = false -> is_prefix u (a ++ c :: r) = is_prefix u a.
Proof.
  induction u as [|x u IH]; intros a c r H; [reflexivity|].
  cbn [mem_byte] in H. apply orb_false_iff in H as [H1 H2].
  destruct a as [|y a]; cbn [app is_prefix].
  - rewrite Ascii.eqb_sym, H1. reflexivity.
  - rewrite IH by exact H2. reflexivity.
Qed.

Lemma is_prefix_split u : forall s, is_prefix u s = true -> s = u ++ skipn (List.length u) s.
Proof.
  induction u as [|x u IH]; intros s H; [reflexivity|].
  destruct s as [|y s]; [discriminate|]. cbn [is_prefix] in H.
  apply andb_true_iff in H as [H1 H2]. apply Ascii.eqb_eq in H1. subst y.
  cbn [app List.length skipn]. f_equal. now apply IH.
Qed.

Lemma is_prefix_refl_app u r : is_prefix u (u ++ r) = true.
Proof. induction u as [|x u IH]; [reflexivity|]. cbn [app is_prefix]. now rewrite Ascii.eqb_refl, IH. Qed.

(* facts about the table of non-ASCII white space, by computation *)
Definition all_high (u : bytes) : bool := forallb (fun c => (128 <=? byte_n c)%N) u.

Lemma uni_spaces_high : forallb (fun u => all_high u && negb (space_len u =? 0)%nat
                                          && match u with [] => false | _ => true end
                                          && match u with c :: _ => negb (is_cont c) | [] => false end)
                                uni_spaces = true.
Proof. vm_compute. reflexivity. Qed.

Lemma uni_space_facts u :
  In u uni_spaces ->
  all_high u = true /\ space_len u <> 0%nat /\ u <> []
  /\ exists c t, u = c :: t /\ is_cont c = false /\ (128 <= byte_n c)%N.
Proof.
  intros H. pose proof uni_spaces_high as C. rewrite forallb_forall in C. specialize (C u H).
  apply andb_true_iff in C as [C C4]. apply andb_true_iff in C as [C C3].
  apply andb_true_iff in C as [C1 C2].
  split; [exact C1|]. split.
  { apply negb_true_iff in C2. apply Nat.eqb_neq in C2. exact C2. }
  split; [destruct u; [discriminate|discriminate]|].
  destruct u as [|c t]; [discriminate|]. exists c, t. split; [reflexivity|].
  split; [now apply negb_true_iff in C4|].
  unfold all_high in C1. cbn [forallb] in C1. apply andb_true_iff in C1 as [C1 _]. lia.
Qed.

Lemma all_high_not_mem u c : all_high u = true -> is_ascii7 c = true -> mem_byte c u = false.
Proof.
  intros H Hc. eapply forallb_not_mem; [exact H|]. cbv beta. unfold is_ascii7 in Hc. lia.
Qed.

(* an octet that is neither ASCII white space nor the lead octet of a
   white-space rune starts no white space, whatever follows *)
Lemma space_len_nolead c t :
  is_ascii_space c = false ->
  (forall u, In u uni_spaces -> match u with x :: _ => Ascii.eqb x c = false | [] => True end) ->
  space_len (c :: t) = 0%nat.
Proof.
  intros Hs Hl. unfold space_len. rewrite Hs.
  rewrite (find_ext_in _ (fun _ => false)); [now rewrite find_false|].
  intros u Hu. specialize (Hl u Hu). destruct u as [|x u]; [destruct (uni_space_facts _ Hu) as (_ & _ & N & _); congruence|].
  cbn [is_prefix]. now rewrite Hl.
Qed.

Definition tokch (c : ascii) : bool := is_ascii7 c && negb (is_ascii_space c).

Lemma space_len_ascii c t : tokch c = true -> space_len (c :: t) = 0%nat.
Proof.
  intros H. apply andb_true_iff in H as [H1 H2]. apply negb_true_iff in H2.
  apply space_len_nolead; [exact H2|]. intros u Hu.
  destruct (uni_space_facts u Hu) as (_ & _ & _ & x & r & -> & _ & Hx).
  destruct (Ascii.eqb x c) eqn:E; [|reflexivity]. apply Ascii.eqb_eq in E. subst x.
  unfold is_ascii7 in H1. lia.
Qed.

Lemma space_len_cont c t : is_cont c = true -> space_len (c :: t) = 0%nat.
Proof.
  intros H. apply space_len_nolead.
  - unfold is_cont, in_range in H. unfold is_ascii_space, in_range.
    destruct (Ascii.eqb c " ") eqn:E; [apply Ascii.eqb_eq in E; subst c; vm_compute in H; discriminate|].
    rewrite orb_false_r. lia.
  - intros u Hu. destruct (uni_space_facts u Hu) as (_ & _ & _ & x & r & -> & Hx & _).
    destruct (Ascii.eqb x c) eqn:E; [|reflexivity]. apply Ascii.eqb_eq in E. subst x. congruence.
Qed.

Lemma ws_free_ascii s : forallb tokch s = true -> ws_free s = true.
Proof.
  induction s as [|c s IH]; [reflexivity|]. cbn [forallb ws_free]. intros H.
  apply andb_true_iff in H as [H1 H2]. rewrite (space_len_ascii c s H1), (IH H2). reflexivity.
Qed.

Lemma ws_free_app_ascii a b : forallb tokch a = true -> ws_free b = true -> ws_free (a ++ b) = true.
Proof.
  induction a as [|c a IH]; [intros _ H; exact H|]. cbn [forallb app ws_free]. intros H Hb.
  apply andb_true_iff in H as [H1 H2]. rewrite (space_len_ascii c _ H1), (IH H2 Hb). reflexivity.
Qed.

Lemma ws_free_suffix a : forall b, ws_free (a ++ b) = true -> ws_free b = true.
Proof.
  induction a as [|c a IH]; intros b H; [exact H|]. cbn [app ws_free] in H.
  apply andb_true_iff in H as [_ H]. now apply IH.
Qed.

Lemma ws_free_head c t : ws_free (c :: t) = true -> space_len (c :: t) = 0%nat.
Proof. cbn [ws_free]. intros H. apply andb_true_iff in H as [H _]. now apply Nat.eqb_eq in H. Qed.

(* what follows a token on the line (SP or the end) does not change space_len inside it *)
Lemma space_len_app_sp c a r : space_len ((c :: a) ++ " " :: r) = space_len (c :: a).
Proof.
  unfold space_len. cbn [app]. destruct (is_ascii_space c); [reflexivity|].
  rewrite (find_ext_in _ (fun u => is_prefix u (c :: a))); [reflexivity|].
  intros u Hu. change (c :: a ++ " " :: r) with ((c :: a) ++ " " :: r).
  apply is_prefix_app_stop. destruct (uni_space_facts u Hu) as (H & _).
  now apply all_high_not_mem.
Qed.

Definition sp_or_end (rest : bytes) : Prop := rest = [] \/ exists r, rest = " " :: r.

Lemma space_len_tok_rest c a rest :
  sp_or_end rest -> space_len ((c :: a) ++ rest) = space_len (c :: a).
Proof. intros [-> | [r ->]]; [now rewrite app_nil_r|apply space_len_app_sp]. Qed.

(* ------------------------------------------------------------------ *)
(* strings.Fields on " tok tok ..."                                    *)
(* ------------------------------------------------------------------ *)

Definition render (ps : list bytes) : bytes := flat_map (fun p => " " :: p) ps.

Lemma render_sp_or_end ps : sp_or_end (render ps).
Proof. destruct ps as [|p ps]; [now left|right]. cbn [render flat_map app]. eauto. Qed.

Lemma fields_tok tok : forall cur rest k,
  ws_free tok = true -> sp_or_end rest ->
  fields_f (List.length tok + k) (tok ++ rest) cur = fields_f k rest (rev tok ++ cur).
Proof.
  induction tok as [|c t IH]; intros cur rest k Hw Hr; [reflexivity|].
  cbn [List.length Nat.add]. cbn [fields_f].
  change ((c :: t) ++ rest) with (c :: t ++ rest) at 1.
  change (c :: t ++ rest) with ((c :: t) ++ rest) at 1.
  rewrite (space_len_tok_rest c t rest Hr), (ws_free_head c t Hw).
  cbn [app]. cbn [ws_free] in Hw. apply andb_true_iff in Hw as [_ Hw].
  rewrite IH by assumption. cbn [rev]. rewrite <- app_assoc. reflexivity.
Qed.

Definition tok_ok (p : bytes) : Prop := ws_free p = true /\ p <> [].

Lemma fields_render ps : forall cur k,
  Forall tok_ok ps -> (List.length (render ps) <= k)%nat ->
  fields_f k (render ps) cur = (match cur with [] => [] | _ => [rev cur] end) ++ ps.
Proof.
  induction ps as [|p ps IH]; intros cur k Hp Hk.
  - cbn [render flat_map]. rewrite app_nil_r. destruct k; reflexivity.
  - inversion Hp as [|? ? [Hw Hne] Hps]; subst.
    cbn [render flat_map] in *. fold (render ps) in *.
    cbn [app List.length] in Hk. rewrite app_length in Hk.
    destruct k as [|k]; [lia|]. cbn [fields_f app].
    change (space_len (" " :: p ++ render ps)) with 1%nat. cbv iota. cbn [skipn].
    replace k with (List.length p + (k - List.length p))%nat by lia.
    assert (E : fields_f (List.length p + (k - List.length p)) (p ++ render ps) [] = p :: ps).
    { rewrite fields_tok by (assumption || apply render_sp_or_end).
      rewrite IH by (assumption || lia). rewrite app_nil_r.
      destruct (rev p) eqn:R.
      - apply (f_equal (@rev ascii)) in R. rewrite rev_involutive in R. cbn in R. congruence.
      - rewrite <- R, rev_involutive. reflexivity. }
    rewrite E. destruct cur; reflexivity.
Qed.

Theorem fields_render_all ps : Forall tok_ok ps -> fields (render ps) = ps.
Proof. intros H. unfold fields. rewrite fields_render by (assumption || lia). reflexivity. Qed.

(* ------------------------------------------------------------------ *)
(* strings.TrimSpace                                                   *)
(* ------------------------------------------------------------------ *)

Lemma trim_left_id c t : space_len (c :: t) = 0%nat -> trim_left_space (c :: t) = c :: t.
Proof. intros H. unfold trim_left_space. cbn [List.length trim_left_f]. now rewrite H. Qed.

Lemma trim_right_id s : space_len_rev (rev s) = 0%nat -> trim_right_space s = s.
Proof.
  intros H. unfold trim_right_space. destruct (List.length s); cbn [trim_right_f].
  - apply rev_involutive.
  - rewrite H. apply rev_involutive.
Qed.

Lemma is_prefix_rev_suffix u s : is_prefix (rev u) (rev s) = true -> exists s1, s = s1 ++ u.
Proof.
  intros H. apply is_prefix_split in H.
  exists (rev (skipn (List.length (rev u)) (rev s))).
  apply (f_equal (@rev ascii)) in H. rewrite rev_involutive, rev_app_distr, rev_involutive in H.
  exact H.
Qed.

(* if a suffix u of pre ++ c :: tok does not contain c, it is a suffix of tok *)
Lemma suffix_in_tok (s1 u pre tok : bytes) c :
  s1 ++ u = pre ++ c :: tok -> mem_byte c u = false -> exists t1, tok = t1 ++ u.
Proof.
  intros E Hc. change (pre ++ c :: tok) with (pre ++ [c] ++ tok) in E. rewrite app_assoc in E.
  apply app_eq_app in E as [l [[E1 E2]|[E1 E2]]].
  - (* s1 = (pre ++ [c]) ++ l, tok = l ++ u *) now exists l.
  - (* pre ++ [c] = s1 ++ l, u = l ++ tok *)
    destruct l as [|x l] using rev_ind.
    + cbn in E2. exists []. now subst.
    + exfalso. rewrite app_assoc in E1. apply app_inj_tail in E1 as [_ <-].
      subst u. rewrite <- app_assoc in Hc. rewrite mem_byte_app in Hc. apply orb_false_iff in Hc as [_ Hc].
      cbn [app mem_byte] in Hc. rewrite Ascii.eqb_refl in Hc. discriminate.
Qed.

Lemma space_len_at_suffix t1 u : ws_free (t1 ++ u) = true -> u <> [] -> space_len u = 0%nat.
Proof.
  intros H Hu. apply ws_free_suffix in H. destruct u as [|c u]; [congruence|]. now apply ws_free_head.
Qed.

(* the end of a line  pre c tok  (c a 7-bit octet, tok white-space free, and
   c not white space when tok is empty) is not white space *)
Lemma space_len_rev_tail pre c tok :
  is_ascii7 c = true -> ws_free tok = true -> (tok = [] -> is_ascii_space c = false) ->
  space_len_rev (rev (pre ++ c :: tok)) = 0%nat.
Proof.
  intros Hc Hw Hne. set (s := pre ++ c :: tok).
  destruct (rev s) as [|x r] eqn:R; [reflexivity|].
  assert (Hx : exists s0, s = s0 ++ [x]).
  { exists (rev r). apply (f_equal (@rev ascii)) in R. rewrite rev_involutive in R. exact R. }
  destruct Hx as [s0 Hx].
  unfold space_len_rev.
  destruct (is_ascii_space x) eqn:Sx.
  - exfalso. destruct tok as [|y tok] using rev_ind.
    + subst s. apply app_inj_tail in Hx as [_ <-]. rewrite (Hne eq_refl) in Sx. discriminate.
    + clear IHtok. subst s. change (pre ++ c :: tok ++ [y]) with (pre ++ (c :: tok) ++ [y]) in Hx.
      rewrite app_assoc in Hx. apply app_inj_tail in Hx as [_ <-].
      pose proof (space_len_at_suffix tok [y] Hw ltac:(discriminate)) as Z.
      unfold space_len in Z. rewrite Sx in Z. discriminate.
  - rewrite (find_ext_in _ (fun _ => false)); [now rewrite find_false|].
    intros u Hu. destruct (is_prefix (rev u) (x :: r)) eqn:P; [|reflexivity]. exfalso.
    rewrite <- R in P. apply is_prefix_rev_suffix in P as [s1 P].
    destruct (uni_space_facts u Hu) as (Hh & Hsl & Hn & _).
    subst s. symmetry in P.
    destruct (suffix_in_tok s1 u pre tok c P (all_high_not_mem u c Hh Hc)) as [t1 ->].
    apply Hsl. now apply (space_len_at_suffix t1 u).
Qed.

Theorem trim_space_id c t pre d tok :
  space_len (c :: t) = 0%nat -> c :: t = pre ++ d :: tok ->
  is_ascii7 d = true -> ws_free tok = true -> (tok = [] -> is_ascii_space d = false) ->
  trim_space (c :: t) = c :: t.
Proof.
  intros H0 E Hd Hw Hne. unfold trim_space. rewrite trim_left_id by exact H0.
  apply trim_right_id. rewrite E. now apply space_len_rev_tail.
Qed.

(* strings.TrimRight(s, "\r\n") *)
Lemma In_mem_byte c s : In c s -> mem_byte c s = true.
Proof.
  induction s as [|x s IH]; [intros []|]. intros [->|H]; cbn [mem_byte].
  - now rewrite Ascii.eqb_refl.
  - rewrite (IH H). apply orb_true_r.
Qed.

Lemma trim_right_crlf_id s : mem_byte CR s = false -> mem_byte LF s = false -> trim_right_crlf s = s.
Proof.
  intros Hc Hl. unfold trim_right_crlf.
  assert (E : trim_right_crlf_rev (rev s) = rev s).
  { destruct (rev s) as [|x r] eqn:R; [reflexivity|].
    assert (Hin : In x s). { apply in_rev. rewrite R. now left. }
    cbn [trim_right_crlf_rev].
    destruct (Ascii.eqb x CR) eqn:E1.
    { apply Ascii.eqb_eq in E1. subst x. apply In_mem_byte in Hin. congruence. }
    destruct (Ascii.eqb x LF) eqn:E2.
    { apply Ascii.eqb_eq in E2. subst x. apply In_mem_byte in Hin. congruence. }
    reflexivity. }
  rewrite E. apply rev_involutive.
Qed.

(* ------------------------------------------------------------------ *)
(* the tail of a command line                                          *)
(* ------------------------------------------------------------------ *)

Lemma render_app a b : render (a ++ b) = render a ++ render b.
Proof. unfold render. apply flat_map_app. Qed.

(* head addr ">" tokens  ends in a way TrimSpace leaves alone *)
Lemma line_tail (head : bytes) ps :
  Forall tok_ok ps ->
  exists pre d tok, head ++ ">" :: render ps = pre ++ d :: tok
    /\ is_ascii7 d = true /\ ws_free tok = true /\ (tok = [] -> is_ascii_space d = false).
Proof.
  intros H. destruct ps as [|p ps] using rev_ind.
  - exists head, ">", []. repeat split; reflexivity.
  - clear IHps. apply Forall_app in H as [_ H]. inversion H as [|? ? [Hw Hne] _]; subst.
    rewrite render_app. cbn [render flat_map]. rewrite app_nil_r.
    exists (head ++ ">" :: flat_map (fun p => " " :: p) ps), " ", p.
    split; [|split; [reflexivity|split; [exact Hw|intros ->; congruence]]].
    fold (render ps). rewrite <- app_assoc. reflexivity.
Qed.

Definition clean (l : bytes) : Prop := mem_byte CR l = false /\ mem_byte LF l = false.

(* parseCmd on "VERB" SP arg, for the two verbs of the envelope *)
Lemma parse_cmd_verb (v0 v1 v2 v3 : ascii) c t :
  is_prefix (bs "STARTTLS") (to_upper [v0; v1]) = false ->
  (forall r, to_upper (v0 :: v1 :: r) = up1 v0 :: to_upper (v1 :: r)) ->
  Ascii.eqb "S" (up1 v0) = false ->
  clean (v0 :: v1 :: v2 :: v3 :: " " :: c :: t) ->
  trim_space (c :: t) = c :: t ->
  parse_cmd (v0 :: v1 :: v2 :: v3 :: " " :: c :: t) = Some (to_upper [v0; v1; v2; v3], c :: t).
Proof.
  intros _ Hu Hs [Hc Hl] Ht. unfold parse_cmd. rewrite trim_right_crlf_id by assumption.
  unfold has_prefix. rewrite Hu. cbn [bs list_ascii_of_string is_prefix]. rewrite Hs. cbn [andb].
  cbn [List.length Nat.eqb Nat.ltb Nat.leb nth firstn skipn]. cbn [Ascii.eqb Bool.eqb andb negb].
  rewrite Ht. reflexivity.
Qed.

Lemma parse_cmd_mail c t :
  clean (bs "MAIL " ++ c :: t) -> trim_space (c :: t) = c :: t ->
  parse_cmd (bs "MAIL " ++ c :: t) = Some (bs "MAIL", c :: t).
Proof.
  intros Hc Ht. apply (parse_cmd_verb "M" "A" "I" "L" c t); try reflexivity; assumption.
Qed.

Lemma parse_cmd_rcpt c t :
  clean (bs "RCPT " ++ c :: t) -> trim_space (c :: t) = c :: t ->
  parse_cmd (bs "RCPT " ++ c :: t) = Some (bs "RCPT", c :: t).
Proof.
  intros Hc Ht. apply (parse_cmd_verb "R" "C" "P" "T" c t); try reflexivity; assumption.
Qed.

Lemma cut_prefix_from rest : cut_prefix_fold (bs "FROM:" ++ rest) (bs "FROM:") = Some rest.
Proof. reflexivity. Qed.
Lemma cut_prefix_to rest : cut_prefix_fold (bs "TO:" ++ rest) (bs "TO:") = Some rest.
Proof. reflexivity. Qed.

(* ------------------------------------------------------------------ *)
(* the path parser on <local@domain>                                   *)
(* ------------------------------------------------------------------ *)

Definition lp_ok (c : ascii) : bool := negb (Ascii.eqb c "@") && negb (dot_string_special c).
Definition dom_ok (c : ascii) : bool :=
  negb (Ascii.eqb c " " || Ascii.eqb c HT || Ascii.eqb c ">").

Lemma dot_string_go_app lp : forall acc rest,
  forallb lp_ok lp = true ->
  dot_string_go (lp ++ "@" :: rest) acc = Some (rev acc ++ lp, "@" :: rest).
Proof.
  induction lp as [|c lp IH]; intros acc rest H.
  - cbn [app dot_string_go]. cbn [Ascii.eqb Bool.eqb andb]. now rewrite app_nil_r.
  - cbn [forallb] in H. apply andb_true_iff in H as [H1 H2]. unfold lp_ok in H1.
    apply andb_true_iff in H1 as [A B]. apply negb_true_iff in A, B.
    cbn [app dot_string_go]. rewrite A, B, IH by exact H2. cbn [rev]. now rewrite <- app_assoc.
Qed.

Definition tail_stop (tail : bytes) : Prop :=
  tail = [] \/ exists c r, tail = c :: r /\ dom_ok c = false.

Lemma domain_go_app dom : forall acc tail,
  forallb dom_ok dom = true -> tail_stop tail ->
  domain_go (dom ++ tail) acc = (rev acc ++ dom, tail).
Proof.
  induction dom as [|c dom IH]; intros acc tail H Ht.
  - cbn [app]. rewrite app_nil_r. destruct Ht as [->|(c & r & -> & Hc)]; [reflexivity|].
    cbn [domain_go]. unfold dom_ok in Hc. apply negb_false_iff in Hc. now rewrite Hc.
  - cbn [forallb] in H. apply andb_true_iff in H as [H1 H2]. unfold dom_ok in H1.
    apply negb_true_iff in H1. cbn [app domain_go]. rewrite H1, IH by assumption.
    cbn [rev]. now rewrite <- app_assoc.
Qed.

Definition mbox_ok (lp dom : bytes) : Prop :=
  lp <> [] /\ forallb lp_ok lp = true /\ forallb dom_ok dom = true
  /\ has_suffix (lp ++ "@" :: dom) (bs "@") = false.

Lemma lp_ok_not_quote c : lp_ok c = true -> Ascii.eqb c """" = false.
Proof.
  intros H.
  assert (E : (negb (lp_ok c) || negb (Ascii.eqb c """")) = true).
  { apply (byte_enum (fun c => negb (lp_ok c) || negb (Ascii.eqb c """"))). vm_compute. reflexivity. }
  rewrite H in E. now apply negb_true_iff in E.
Qed.

Theorem parse_mailbox_ok lp dom tail :
  mbox_ok lp dom -> tail_stop tail ->
  parse_mailbox (lp ++ "@" :: dom ++ tail) = Some (lp ++ "@" :: dom, tail).
Proof.
  intros (Hne & Hlp & Hdom & Hsuf) Ht. unfold parse_mailbox, parse_local_part.
  destruct lp as [|c lp]; [congruence|].
  assert (Hq : Ascii.eqb c """" = false).
  { apply lp_ok_not_quote. cbn [forallb] in Hlp. now apply andb_true_iff in Hlp as [Hlp _]. }
  cbn [app]. rewrite Hq.
  change (c :: lp ++ "@" :: dom ++ tail) with ((c :: lp) ++ "@" :: dom ++ tail).
  rewrite dot_string_go_app by exact Hlp. cbn [rev app].
  cbn [Ascii.eqb Bool.eqb andb]. rewrite domain_go_app by assumption. cbn [rev app].
  cbn [app] in Hsuf. rewrite Hsuf. reflexivity.
Qed.

(* "<addr>" rest *)
Theorem parse_path_ok lp dom rest :
  mbox_ok lp dom ->
  parse_path ("<" :: (lp ++ "@" :: dom) ++ ">" :: rest) = Some (lp ++ "@" :: dom, rest).
Proof.
  intros H. pose proof H as (Hne & Hlp & _). unfold parse_path. cbn [Ascii.eqb Bool.eqb andb].
  destruct lp as [|c lp]; [congruence|].
  assert (Hat : Ascii.eqb c "@" = false).
  { cbn [forallb] in Hlp. apply andb_true_iff in Hlp as [Hc _]. unfold lp_ok in Hc.
    apply andb_true_iff in Hc as [Hc _]. now apply negb_true_iff in Hc. }
  cbn [app]. rewrite Hat.
  replace (c :: (lp ++ "@" :: dom) ++ ">" :: rest) with ((c :: lp) ++ "@" :: dom ++ ">" :: rest).
  - rewrite parse_mailbox_ok; [|exact H|right; exists ">", rest; split; reflexivity].
    cbn [Ascii.eqb Bool.eqb andb]. reflexivity.
  - cbn [app]. now rewrite <- app_assoc.
Qed.

Theorem parse_reverse_path_ok lp dom rest :
  mbox_ok lp dom ->
  parse_reverse_path ("<" :: (lp ++ "@" :: dom) ++ ">" :: rest) = Some (lp ++ "@" :: dom, rest).
Proof.
  intros H. pose proof H as (Hne & Hlp & _). unfold parse_reverse_path.
  destruct lp as [|c lp]; [congruence|].
  assert (Hgt : Ascii.eqb ">" c = false).
  { cbn [forallb] in Hlp. apply andb_true_iff in Hlp as [Hc _].
    assert (E : (negb (lp_ok c) || negb (Ascii.eqb ">" c)) = true).
    { apply (byte_enum (fun c => negb (lp_ok c) || negb (Ascii.eqb ">" c))). vm_compute. reflexivity. }
    rewrite Hc in E. now apply negb_true_iff in E. }
  unfold has_prefix.
  assert (P : is_prefix (bs "<>") ("<" :: ((c :: lp) ++ "@" :: dom) ++ ">" :: rest) = false).
  { cbn [app bs list_ascii_of_string is_prefix]. rewrite Hgt. reflexivity. }
  rewrite P.
  apply (parse_path_ok (c :: lp) dom rest H).
Qed.

Lemma parse_reverse_path_null rest : parse_reverse_path ("<" :: ">" :: rest) = Some ([], rest).
Proof. reflexivity. Qed.

(* ------------------------------------------------------------------ *)
(* parseArgs                                                           *)
(* ------------------------------------------------------------------ *)

(* the token p is "K=v" with a non-empty v, or "K", with an upper-case key
   free of '=' *)
Definition tok_kv (p k v : bytes) : Prop :=
  mem_byte "=" k = false /\ to_upper_ascii k = k
  /\ ((mem_byte "=" v = false /\ v <> [] /\ p = k ++ "=" :: v) \/ (v = [] /\ p = k)).

Definition set_all (kvs m0 : list (bytes * bytes)) : list (bytes * bytes) :=
  fold_left (fun m kv => assoc_set (fst kv) (snd kv) m) kvs m0.

Lemma parse_args_go_toks ps : forall kvs m0,
  Forall2 (fun p kv => tok_kv p (fst kv) (snd kv)) ps kvs ->
  parse_args_go ps m0 = Some (set_all kvs m0).
Proof.
  induction ps as [|p ps IH]; intros kvs m0 H; inversion H as [|? [k v] ? ? Hp Hr]; subst; [reflexivity|].
  cbn [fst snd] in Hp. destruct Hp as (Hk & Hu & [(Hv & Hne & ->)|[-> ->]]); cbn [parse_args_go].
  - rewrite split_byte_app by exact Hk. rewrite split_byte_single by exact Hv.
    destruct v as [|v0 v]; [congruence|].
    rewrite Hu. cbn [set_all fold_left fst snd]. now apply IH.
  - rewrite split_byte_single by exact Hk. rewrite Hu. cbn [set_all fold_left fst snd]. now apply IH.
Qed.

Lemma assoc_set_in k v m x : In x (assoc_set k v m) -> x = (k, v) \/ In x m.
Proof.
  induction m as [|[k' v'] m IH]; cbn [assoc_set]; [intros [<-|[]]; now left|].
  destruct (bytes_eqb k k'); intros [<-|H]; auto.
  - right. now right.
  - right. now left.
  - destruct (IH H); auto. right. now right.
Qed.

Lemma assoc_set_key k v m : In k (map fst (assoc_set k v m)).
Proof.
  induction m as [|[k' v'] m IH]; cbn [assoc_set]; [now left|].
  destruct (bytes_eqb k k') eqn:E; cbn [map fst In]; [now left|now right].
Qed.

Lemma assoc_set_keys k v m k0 : In k0 (map fst m) -> In k0 (map fst (assoc_set k v m)).
Proof.
  induction m as [|[k' v'] m IH]; cbn [assoc_set map fst In]; [intros []|].
  destruct (bytes_eqb k k') eqn:E; cbn [map fst In].
  - apply bytes_eqb_eq in E. subst k'. tauto.
  - intros [->|H]; [now left|right; now apply IH].
Qed.

Lemma set_all_in kvs : forall m0 x, In x (set_all kvs m0) -> In x kvs \/ In x m0.
Proof.
  induction kvs as [|[k v] kvs IH]; intros m0 x H; [now right|].
  cbn [set_all fold_left fst snd] in H. apply IH in H as [H|H]; [left; now right|].
  apply assoc_set_in in H as [->|H]; [left; now left|now right].
Qed.

Lemma set_all_keys kvs : forall m0 k,
  In k (map fst kvs) \/ In k (map fst m0) -> In k (map fst (set_all kvs m0)).
Proof.
  induction kvs as [|[k v] kvs IH]; intros m0 k0 H.
  - destruct H as [[]|H]. exact H.
  - cbn [set_all fold_left fst snd]. apply IH. cbn [map fst In] in H.
    destruct H as [[<-|H]|H]; [right; apply assoc_set_key|now left|right; now apply assoc_set_keys].
Qed.

Theorem parse_args_render ps kvs :
  Forall tok_ok ps -> Forall2 (fun p kv => tok_kv p (fst kv) (snd kv)) ps kvs ->
  exists m, parse_args (render ps) = Some m
    /\ (forall x, In x m -> In x kvs)
    /\ (forall k, In k (map fst kvs) -> In k (map fst m)).
Proof.
  intros Hok H. exists (set_all kvs []). unfold parse_args.
  rewrite fields_render_all by exact Hok. rewrite (parse_args_go_toks ps kvs [] H).
  split; [reflexivity|]. split.
  - intros x Hx. apply set_all_in in Hx as [Hx|[]]. exact Hx.
  - intros k Hk. apply set_all_keys. now left.
Qed.
